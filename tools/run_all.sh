#!/bin/sh
# usage: tools/run_all.sh quick|thorough [ids...]   -- runs the registered checks one after another
cd "$(dirname "$0")/.."
tier=${1:-quick}; shift
ids=${@:-C01 C02 C03 C04 C05 C06 C07 C08 C09 C10 C11 C12 C13 C14 C15 C16 C17 C18 C19 C20}
for c in $ids; do
  if true; then
    s=$(date +%s)
    python3 -m vf check $c --tier $tier > .work/run_$c.log 2>&1; rc=$?
    e=$(date +%s)
    echo "$c rc=$rc $((e-s))s $(grep -E '^(OK|VIOLATION|INCONCLUSIVE|KNOWN-FINDING)' .work/run_$c.log | head -2 | cut -c1-220)"
  fi
done
