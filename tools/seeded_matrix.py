#!/usr/bin/env python3
"""Prints the table of seeded changes (one row per /verif/seeded/<id>) and which checks caught them,
from meta.json and the check_results.json that `python3 -m vf.seedtest` writes; also refreshes the
caught_by / missed_by fields of meta.json."""
import json, os, sys
V = os.path.dirname(os.path.dirname(os.path.abspath(__file__)))
rows = []
for n in sorted(os.listdir(os.path.join(V, "seeded"))):
    d = os.path.join(V, "seeded", n)
    mp = os.path.join(d, "meta.json")
    if not os.path.exists(mp):
        continue
    m = json.load(open(mp))
    rp = os.path.join(d, "check_results.json")
    caught, missed = list(m.get("caught_by_checks", [])), list(m.get("missed_by_checks", []))
    if os.path.exists(rp):
        r = json.load(open(rp))
        for pid, v in r["results"].items():
            tag = "%s %s" % (pid, r.get("tier", "quick"))
            if v["rc"] == 1 and tag not in caught:
                caught.append(tag)
            if v["rc"] == 0 and tag not in missed:
                missed.append(tag)
        caught = [c for c in caught]
        missed = [x for x in missed if x not in caught]
        m["caught_by_checks"] = caught
        m["missed_by_checks"] = missed
        json.dump(m, open(mp, "w"), indent=1)
    origin = "regression (reverted fix)" if "regress" in n else "sub-agent"
    rows.append((n, m["property"], origin, m.get("needs", "")[:170], ", ".join(caught) or "-", ", ".join(missed) or "-"))
print("| seeded change | property | origin | needs, in order to manifest | caught by | not caught by |")
print("|---|---|---|---|---|---|")
for r in rows:
    print("| `%s` | %s | %s | %s | %s | %s |" % r)
