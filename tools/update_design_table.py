#!/usr/bin/env python3
import os, re, subprocess
V = os.path.dirname(os.path.dirname(os.path.abspath(__file__)))
t = subprocess.run(["python3", os.path.join(V, "tools", "seeded_matrix.py")], capture_output=True, text=True).stdout
p = os.path.join(V, "DESIGN.md")
s = open(p).read()
s = re.sub(r"<!-- seeded-table-begin -->.*?<!-- seeded-table-end -->", lambda m: "<!-- seeded-table-begin -->\n" + t + "<!-- seeded-table-end -->", s, flags=re.S)
open(p, "w").write(s)
