#!/usr/bin/env python3
"""Regenerates /verif/MANIFEST.json from the table below (kept in one place so that the
not_applicable list and the claimed checks never drift apart)."""
import json, os, subprocess
V = os.path.dirname(os.path.dirname(os.path.abspath(__file__)))
props = [json.loads(l) for l in open(os.path.join(V, "properties.jsonl"))]
C = {}
def claim(pid, cat, technique, text, note, ref, engine="vf-model"):
    C[pid] = dict(cat=cat, technique=technique, text=text, note=note, ref=ref, engine=engine)

MODEL_NOTE = ("trusted base: the reference semantics /verif/vf/ref.py (naive evaluation, control-flow reading of branch/match as documented in eqlog.eql), "
              "the typed theory generator, the driver/probe text included into the generated module; bounds: <= 6 caller elements per type, closes capped "
              "(capped or timed-out cases are counted as inconclusive, never as violations)")
claim("C01", "exploration", "runtime monitor: naive re-evaluation of the source rules (closedness oracle) over dumps of the real closed model, generated + corpus theories x generated API histories",
      "Every close() of every history is followed by a dump of the real model through the public API; a naive evaluator re-checks every rule stage and single-valuedness. Held on the programs/histories explored.", MODEL_NOTE, "§2 C01")
claim("C02", "exploration", "runtime monitor: closed model compared up to label-fixing isomorphism (least-term naming) with a reference naive chase of the same assertions",
      "The real closed model and a bounded reference chase are both named canonically and compared: extra/missing tuples, equalities between caller elements, duplicate or junk elements are all visible.", MODEL_NOTE + "; inputs whose reference chase exceeds its bound are inconclusive", "§2 C02")
claim("C03", "exploration", "metamorphic runtime monitor: permuted / re-closed / duplicated / late-arrival histories of one fact set must close to canonically equal models; close() on a closed model must change nothing",
      "Pure differential testing of the implementation against itself across histories (no reference model needed), including the old x new splits the test-suite lacks.", MODEL_NOTE, "§2 C03")
claim("C04", "exploration", "invariant monitor over hooked state: private index copies, element indices, type sets, uprooted lists and all public query paths compared at every quiescent point (close return, every close_until condition evaluation)",
      "The probe included into the generated module dumps every redundant copy; an offline checker decodes column orders and diagonal patterns and checks I1-I6, plus point queries on all id tuples incl. non-root representatives.", MODEL_NOTE, "§2 C04")
claim("C05", "exploration", "offline checker over the recorded call/return log with a shadow union-find and shadow tuple lists",
      "Every return value of new_/define_/are_equal_/root_/predicate/evaluation/iterator calls in query-heavy random histories is checked against a small shadow state.", MODEL_NOTE, "§2 C05")
claim("C06", "exploration", "bounded-progress runtime monitor: iteration count of every close against a progress bound derived from the dirtiness condition, id counters before/after",
      "Termination restated as bounded progress (every non-final iteration must add a tuple or merge); no new ids, no more elements, dense next id.", MODEL_NOTE + "; liveness itself is out of reach of a finite monitor", "§2 C06")
claim("C07", "exploration", "runtime monitor of close_until returns: contract, embedding of the stopped state into the twin direct close, canonical equality after resumption; conditions chosen from the twin's derived facts",
      "Conditions are monotone public queries that first hold at different iterations; the stopped state must embed into the closed model and close() must complete it to exactly the direct result.", MODEL_NOTE, "§2 C07")
claim("C15", "exploration", "runtime monitor: <enum>_case/_cases swept over every allocated enum id at quiescent points (panics caught), API-surface scan of generated modules, compile-side accept/reject programs",
      "Every enum element of every explored model is destructured; the generated API is scanned for other ways to obtain enum ids; rules defining non-constructor enum terms must be rejected.", MODEL_NOTE, "§2 C15")
claim("C19", "exploration", "differential runtime monitor: the same histories on module-linked and component-linked drivers with byte comparison of full event logs, textual comparison of env structs / symbols / rule code, and a valgrind memcheck shard on the component-linked driver",
      "Both build types are produced by the real compiler (components through its own rustc invocations) and linked into two drivers; logs incl. per-iteration private dumps must be identical.", MODEL_NOTE, "§2 C19")
claim("C20", "exploration", "differential runtime monitor across fresh processes with perturbed address-space layout, environment and allocator behaviour, plus an AddressSanitizer build of module and runtime; byte comparison of transcripts",
      "Transcripts contain ids, return values and the iteration order of every public iterator and private index copy; any dependence on addresses/hash seeds/environment shows as a byte difference.", MODEL_NOTE, "§2 C20")
claim("C17", "exploration", "runtime monitor on generated model theories: inheritance closure on the dump, closedness under explicit inheritance rules, equality with the reference free model, metamorphic timing variants (morphisms before/after facts and closes), and a mechanism monitor on private `_all` index copies at every condition evaluation",
      "Model theories (one model with member predicates, global rules over them, constants naming models and morphisms, dom/cod asserted or rule-derived) are compiled by the real compiler; histories that differ only in when the morphism diagram, the facts and the closes come must all close to the reference free model.", MODEL_NOTE + "; two theory families: member predicates over global types with generated rules, and a member type with member predicates/functions, morphism application and a pool of hand-written rules; one model per program; acyclic morphism diagrams only (close() rejects cycles by design)", "§2 C17")
RT_NOTE = "trusted base: std BTree collections as reference, the monitor harness in /verif/rt, Miri's tree-borrows model for the UB part; executions observed, nothing proved"
claim("C08", "exploration", "differential runtime monitor (reference model: BTreeSet) on clone families, native + Miri tree-borrows, plus bounded exhaustive op sequences",
      "Every operation of PrefixTree0..9 is executed on the real runtime and compared online with a BTreeSet shadow on every live clone (iteration order, emptiness, every prefix lookup, recursively).", RT_NOTE, "§2 C08", "vf-rt")
claim("C14", "exploration", "differential runtime monitor (reference model: BTreeMap) with structural invariant hook H1 after every operation, native + Miri tree-borrows, plus bounded exhaustive op sequences",
      "Every WBTreeMap/WBTreeSet operation is compared with BTreeMap and followed by a walk of the real tree (hook H1: size fields, key order, weight balance, height bound) on every live clone; callback operand order and multiplicity are recorded.", RT_NOTE, "§2 C14", "vf-rt")
claim("C18", "exploration", "runtime monitor of morphism_toposort results against an independent DFS/validity oracle over several new/old splits; exhaustive small multigraphs + random",
      "Every multigraph with <=3 objects/<=4 morphisms (quick; 4/5 thorough) and ~10^5 random larger ones are submitted under several new/old splits.", RT_NOTE, "§2 C18", "vf-rt")
try:
    from tools_cli_claims import add as _add  # optional extension point
except Exception:
    _add = None
extra = os.path.join(V, "tools", "claims_cli.json")
if os.path.exists(extra):
    for pid, c in json.load(open(extra)).items():
        claim(pid, c["cat"], c["technique"], c["text"], c["note"], c["ref"], c.get("engine", "vf-cli"))
checks = []
for pid in sorted(C):
    c = C[pid]
    checks.append({
        "property_id": pid,
        "quick_cmd": "python3 -m vf check %s --tier quick" % pid,
        "thorough_cmd": "python3 -m vf check %s --tier thorough" % pid,
        "evidence_file": "/verif/evidence/%s.json" % pid,
        "replay_cmd_template": "ls {path}  # violation.txt, theory.eql + script.txt (model checks) or cmd.txt (runtime checks); re-run: python3 -m vf check %s" % pid,
        "engine": c["engine"],
        "level_claimed": {"category": c["cat"], "text": c["text"], "design_ref": c["ref"]},
        "level_note": c["note"],
        "technique": c["technique"],
    })
na = [{"property_id": p["id"], "reason": "check not built yet (planned runtime monitor, see DESIGN.md section 2); not claimed until it runs silent on the unchanged tree"} for p in props if p["id"] not in C]
hooks = subprocess.run(["git", "-C", "/repo", "log", "--format=%h %s"], capture_output=True, text=True).stdout.splitlines()
hook_commits = [l.split()[0] for l in hooks if "'verif' feature" in l]
m = {
    "version": 1,
    "setup_cmd": "python3 -m vf setup",
    "hooks": {
        "guard": "cargo feature `verif` (eqlog-runtime: WBTreeMap::verif_shape; eqlog: observation points in generated close_until, additionally gated at theory-compile time by env EQLOG_VERIF_HOOKS)",
        "enable": "cargo build --offline --features rebuild,verif in a mirror copy of /repo (eqlog crate); rustc --cfg 'feature=\"verif\"' for eqlog-runtime",
        "baseline_off_cmd": "cd /repo && cargo test --workspace --no-fail-fast --offline",
        "source_commits": hook_commits,
        "add_only": True,
    },
    "engines": [
        {"name": "vf-rt", "path": "/verif/rt", "serves_properties": ["C08", "C14", "C18"], "kind_free_text": "Rust online differential monitors for eqlog-runtime, run natively and under Miri"},
        {"name": "vf-model", "path": "/verif/vf", "serves_properties": [p for p in sorted(C) if C[p]["engine"] == "vf-model"], "kind_free_text": "Python: typed theory/history generators, reference semantics, per-theory Rust driver + in-module probe generator, offline checkers over recorded event logs"},
        {"name": "vf-cli", "path": "/verif/vf", "serves_properties": [p for p in sorted(C) if C[p]["engine"] == "vf-cli"], "kind_free_text": "Python workloads around the real compiler binary (fault-injection shim, stub rustc, mutators, plan parser)"},
    ],
    "checks": checks,
    "not_applicable": na,
    "notes": "Runtime monitoring only: every verdict is 'held on the executions observed'. Exit 2 + INCONCLUSIVE line = harness could not decide (never a violation). Known findings: /verif/known_findings.json.",
}
json.dump(m, open(os.path.join(V, "MANIFEST.json"), "w"), indent=1)
print("claimed:", sorted(C), "not applicable:", [x["property_id"] for x in na])
