// libfsfault.so -- LD_PRELOAD shim for the unmodified eqlog CLI (and its rustc children):
// logs every file-system mutation under the configured roots and can kill the whole process
// group right before the k-th such mutation (optionally after a torn half write).
//
//   FSFAULT_ROOTS    colon separated absolute path prefixes that count
//   FSFAULT_LOG      log file (one line per mutation: seq pid call path bytes)
//   FSFAULT_COUNTER  shared counter file (sequence numbers across processes)
//   FSFAULT_KILL_AT  k >= 1: kill(0, SIGKILL) before the k-th mutation
//   FSFAULT_TORN     1: if the k-th mutation is a write, perform the first half, then kill
#define _GNU_SOURCE
#include <dlfcn.h>
#include <errno.h>
#include <fcntl.h>
#include <limits.h>
#include <pthread.h>
#include <signal.h>
#include <stdarg.h>
#include <stdio.h>
#include <stdlib.h>
#include <string.h>
#include <sys/file.h>
#include <sys/stat.h>
#include <sys/types.h>
#include <unistd.h>

static pthread_mutex_t mu = PTHREAD_MUTEX_INITIALIZER;
#define MAXFD 4096
static char *fdpath[MAXFD];

static int (*real_open)(const char *, int, ...);
static int (*real_openat)(int, const char *, int, ...);
static ssize_t (*real_write)(int, const void *, size_t);
static int (*real_unlink)(const char *);
static int (*real_unlinkat)(int, const char *, int);
static int (*real_rename)(const char *, const char *);
static int (*real_mkdir)(const char *, mode_t);
static int (*real_close)(int);
static int (*real_ftruncate)(int, off_t);

static void init(void) {
    if (real_open) return;
    real_open = dlsym(RTLD_NEXT, "open");
    real_openat = dlsym(RTLD_NEXT, "openat");
    real_write = dlsym(RTLD_NEXT, "write");
    real_unlink = dlsym(RTLD_NEXT, "unlink");
    real_unlinkat = dlsym(RTLD_NEXT, "unlinkat");
    real_rename = dlsym(RTLD_NEXT, "rename");
    real_mkdir = dlsym(RTLD_NEXT, "mkdir");
    real_close = dlsym(RTLD_NEXT, "close");
    real_ftruncate = dlsym(RTLD_NEXT, "ftruncate");
}

static int under_roots(const char *path, char *abs) {
    const char *roots = getenv("FSFAULT_ROOTS");
    if (!roots || !path) return 0;
    if (path[0] == '/') {
        strncpy(abs, path, PATH_MAX - 1);
        abs[PATH_MAX - 1] = 0;
    } else {
        char cwd[PATH_MAX];
        if (!getcwd(cwd, sizeof cwd)) return 0;
        snprintf(abs, PATH_MAX, "%s/%s", cwd, path);
    }
    const char *p = roots;
    while (*p) {
        const char *e = strchr(p, ':');
        size_t n = e ? (size_t)(e - p) : strlen(p);
        if (n > 0 && strncmp(abs, p, n) == 0 && (abs[n] == '/' || abs[n] == 0)) return 1;
        if (!e) break;
        p = e + 1;
    }
    return 0;
}

// Returns the sequence number of this mutation; kills the process group if it is the k-th.
static long mutation(const char *call, const char *path, long bytes, int *torn) {
    init();
    long seq = 0;
    const char *cf = getenv("FSFAULT_COUNTER");
    if (cf) {
        int fd = real_open(cf, O_RDWR | O_CREAT, 0644);
        if (fd >= 0) {
            flock(fd, LOCK_EX);
            char buf[32] = {0};
            if (pread(fd, buf, sizeof buf - 1, 0) > 0) seq = atol(buf);
            seq += 1;
            int n = snprintf(buf, sizeof buf, "%ld\n", seq);
            if (pwrite(fd, buf, n, 0) < 0) { /* ignore */ }
            flock(fd, LOCK_UN);
            real_close(fd);
        }
    }
    const char *lf = getenv("FSFAULT_LOG");
    if (lf) {
        int fd = real_open(lf, O_WRONLY | O_CREAT | O_APPEND, 0644);
        if (fd >= 0) {
            char line[PATH_MAX + 128];
            int n = snprintf(line, sizeof line, "%ld %d %s %s %ld\n", seq, (int)getpid(), call, path, bytes);
            if (real_write(fd, line, n) < 0) { /* ignore */ }
            real_close(fd);
        }
    }
    const char *k = getenv("FSFAULT_KILL_AT");
    if (k && atol(k) == seq) {
        const char *t = getenv("FSFAULT_TORN");
        if (torn && t && t[0] == '1' && bytes > 1) {
            *torn = 1;
            return seq;
        }
        kill(0, SIGKILL);
        _exit(137);
    }
    return seq;
}

static int is_write_open(int flags) {
    int acc = flags & O_ACCMODE;
    return acc == O_WRONLY || acc == O_RDWR || (flags & (O_CREAT | O_TRUNC));
}

static void remember(int fd, const char *abs) {
    if (fd >= 0 && fd < MAXFD) {
        pthread_mutex_lock(&mu);
        free(fdpath[fd]);
        fdpath[fd] = strdup(abs);
        pthread_mutex_unlock(&mu);
    }
}

static int do_open(int dirfd, const char *path, int flags, mode_t mode, int at) {
    init();
    char abs[PATH_MAX];
    int track = 0;
    if (is_write_open(flags) && (!at || dirfd == AT_FDCWD || (path && path[0] == '/')) && under_roots(path, abs)) {
        // a mutation only if it creates the file or truncates a non-empty one
        struct stat st;
        int exists = stat(abs, &st) == 0;
        if ((!exists && (flags & O_CREAT)) || (exists && (flags & O_TRUNC) && st.st_size > 0))
            mutation(exists ? "truncate" : "create", abs, 0, NULL);
        track = 1;
    }
    int fd = at ? real_openat(dirfd, path, flags, mode) : real_open(path, flags, mode);
    if (track) remember(fd, abs);
    return fd;
}

int open(const char *path, int flags, ...) {
    mode_t mode = 0;
    if (flags & (O_CREAT | O_TMPFILE)) { va_list ap; va_start(ap, flags); mode = va_arg(ap, mode_t); va_end(ap); }
    return do_open(AT_FDCWD, path, flags, mode, 0);
}
int open64(const char *path, int flags, ...) {
    mode_t mode = 0;
    if (flags & (O_CREAT | O_TMPFILE)) { va_list ap; va_start(ap, flags); mode = va_arg(ap, mode_t); va_end(ap); }
    return do_open(AT_FDCWD, path, flags, mode, 0);
}
int openat(int dirfd, const char *path, int flags, ...) {
    mode_t mode = 0;
    if (flags & (O_CREAT | O_TMPFILE)) { va_list ap; va_start(ap, flags); mode = va_arg(ap, mode_t); va_end(ap); }
    return do_open(dirfd, path, flags, mode, 1);
}
int openat64(int dirfd, const char *path, int flags, ...) {
    mode_t mode = 0;
    if (flags & (O_CREAT | O_TMPFILE)) { va_list ap; va_start(ap, flags); mode = va_arg(ap, mode_t); va_end(ap); }
    return do_open(dirfd, path, flags, mode, 1);
}
int creat(const char *path, mode_t mode) { return do_open(AT_FDCWD, path, O_CREAT | O_WRONLY | O_TRUNC, mode, 0); }
int creat64(const char *path, mode_t mode) { return do_open(AT_FDCWD, path, O_CREAT | O_WRONLY | O_TRUNC, mode, 0); }

ssize_t write(int fd, const void *buf, size_t n) {
    init();
    char *p = NULL;
    if (fd >= 0 && fd < MAXFD) {
        pthread_mutex_lock(&mu);
        if (fdpath[fd]) p = strdup(fdpath[fd]);
        pthread_mutex_unlock(&mu);
    }
    if (p) {
        int torn = 0;
        mutation("write", p, (long)n, &torn);
        free(p);
        if (torn) {
            if (real_write(fd, buf, n / 2) < 0) { /* ignore */ }
            kill(0, SIGKILL);
            _exit(137);
        }
    }
    return real_write(fd, buf, n);
}

int close(int fd) {
    init();
    if (fd >= 0 && fd < MAXFD) {
        pthread_mutex_lock(&mu);
        free(fdpath[fd]);
        fdpath[fd] = NULL;
        pthread_mutex_unlock(&mu);
    }
    return real_close(fd);
}

int unlink(const char *path) {
    init();
    char abs[PATH_MAX];
    struct stat st;
    if (under_roots(path, abs) && lstat(abs, &st) == 0) mutation("unlink", abs, 0, NULL);
    return real_unlink(path);
}
int unlinkat(int dirfd, const char *path, int flags) {
    init();
    char abs[PATH_MAX];
    struct stat st;
    if ((dirfd == AT_FDCWD || (path && path[0] == '/')) && under_roots(path, abs) && lstat(abs, &st) == 0)
        mutation("unlink", abs, 0, NULL);
    return real_unlinkat(dirfd, path, flags);
}
int rename(const char *a, const char *b) {
    init();
    char abs[PATH_MAX];
    if (under_roots(b, abs) || under_roots(a, abs)) mutation("rename", abs, 0, NULL);
    return real_rename(a, b);
}
int mkdir(const char *path, mode_t mode) {
    init();
    char abs[PATH_MAX];
    struct stat st;
    if (under_roots(path, abs) && stat(abs, &st) != 0) mutation("mkdir", abs, 0, NULL);
    return real_mkdir(path, mode);
}
int ftruncate(int fd, off_t len) {
    init();
    char *p = NULL;
    if (fd >= 0 && fd < MAXFD) {
        pthread_mutex_lock(&mu);
        if (fdpath[fd]) p = strdup(fdpath[fd]);
        pthread_mutex_unlock(&mu);
    }
    if (p) { mutation("ftruncate", p, (long)len, NULL); free(p); }
    return real_ftruncate(fd, len);
}
