"""C16 (static half): validation of the semi-naive plans in the compiler's real output.

For every emitted rule function the flat-rule comment *and* the body are parsed: which new/old
index fields each premise position actually reads. For every family (functions name_stage_i)
and all 2^n new/old labellings of the n premise atoms, the number of members whose per-position
age sets admit the labelling must be 1 if some atom is new and 0 if all are old."""
import itertools
import re

from .checks_model import split_mods


class PlanParseError(Exception):
    pass


FN_RE = re.compile(r"((?:^// .*\n)+)^fn (\w+)\(env: &mut \w+\) \{\n", re.M)


def parse_functions(mod_text):
    """Yields dicts: name, premise [(atom_str, age)], conclusion [str], body."""
    out = []
    ms = list(FN_RE.finditer(mod_text))
    for i, m in enumerate(ms):
        comment, name = m.group(1), m.group(2)
        end = ms[i + 1].start() if i + 1 < len(ms) else len(mod_text)
        body = mod_text[m.end():end]
        # cut at the exported main function of the module
        j = body.find("#[unsafe(no_mangle)]")
        if j >= 0:
            body = body[:j]
        lines = [l[3:] for l in comment.splitlines()]
        if not lines or not lines[0].startswith("rule "):
            continue
        prem, concl = [], []
        mode = None
        for l in lines[1:]:
            if l.strip() == "if:":
                mode = "if"
            elif l.strip() == "then:":
                mode = "then"
            elif l.startswith("- "):
                if mode == "if":
                    mm = re.match(r"^- (.*) \[(new|old|all)\]$", l)
                    if not mm:
                        raise PlanParseError("cannot parse premise line %r of %s" % (l, name))
                    prem.append((mm.group(1), mm.group(2)))
                elif mode == "then":
                    concl.append(l[2:])
        out.append({"name": name, "premise": prem, "conclusion": concl, "body": body})
    return out


def body_ages(fn):
    """Per premise position: set of ages whose index field is bound from env and used."""
    n = len(fn["premise"])
    ages = [set() for _ in range(n)]
    body = fn["body"]
    for m in re.finditer(r"let (set(\d+)_(\w+?)_r0) =\s*\n?\s*env\.(\w+)", body):
        var, k, _fld, envfld = m.group(1), int(m.group(2)), m.group(3), m.group(4)
        am = re.search(r"_(new|old)_", envfld + "_")
        if not am:
            raise PlanParseError("index field without age: " + envfld)
        if k >= n:
            raise PlanParseError("%s binds premise position %d but the comment lists %d atoms" % (fn["name"], k, n))
        used = len(re.findall(r"\b%s\b" % re.escape(var), body)) >= 2
        if used:
            ages[k].add(am.group(1))
    return ages


def check_module(mod_text):
    """Returns (violations, stats)."""
    bad = []
    stats = {"families": 0, "labellings": 0, "members": 0, "max_atoms": 0}
    mods, _ = split_mods(mod_text)
    for mname, text in mods.items():
        fns = parse_functions(text)
        fams = {}
        for f in fns:
            if not f["premise"]:
                # rules with an empty premise are emitted as one function per stage (no
                # member suffix) and are run in every iteration by design
                fams.setdefault(f["name"] + "#", []).append(f)
                continue
            mm = re.match(r"^(.*)_(\d+)$", f["name"])
            if not mm:
                raise PlanParseError("unexpected rule function name " + f["name"])
            fams.setdefault(mm.group(1), []).append(f)
        for fam, members in fams.items():
            stats["families"] += 1
            stats["members"] += len(members)
            is_func = mname.startswith("functionality_")
            # comment vs body
            per_member = []
            for f in members:
                ages_c = [({"new", "old"} if a == "all" else {a}) for _, a in f["premise"]]
                ages_b = body_ages(f)
                if f["premise"] and ages_b != ages_c:
                    bad.append("%s::%s: the body reads ages %s but the flat-rule comment declares %s" % (
                        mname, f["name"], [sorted(x) for x in ages_b], [a for _, a in f["premise"]]))
                per_member.append(ages_b if f["premise"] else ages_c)
            atoms0 = sorted(a for a, _ in members[0]["premise"])
            n = len(atoms0)
            stats["max_atoms"] = max(stats["max_atoms"], n)
            for f in members[1:]:
                if sorted(a for a, _ in f["premise"]) != atoms0:
                    bad.append("%s: members %s and %s of one family have different premise atoms: %s vs %s" % (
                        mname, members[0]["name"], f["name"], atoms0, sorted(a for a, _ in f["premise"])))
                if f["conclusion"] != members[0]["conclusion"]:
                    bad.append("%s: members %s and %s of one family have different conclusions" % (mname, members[0]["name"], f["name"]))
            if n == 0:
                continue  # empty premise: run in every iteration by design
            if n > 12:
                continue
            # Identical atom strings (same relation, same variables) are necessarily matched by
            # the same tuple, so they carry the same label: labellings range over the distinct
            # atom strings and a member admits one iff every occurrence admits it.
            def keyed(f, ages):
                d = {}
                for (a, _), ag in zip(f["premise"], ages):
                    d.setdefault(a, []).append(ag)
                return d
            km = [keyed(f, ages) for f, ages in zip(members, per_member)]
            keys = sorted(km[0].keys())
            if any(sorted(k.keys()) != keys for k in km):
                continue  # already reported as differing atoms
            for lab in itertools.product(("new", "old"), repeat=len(keys)):
                stats["labellings"] += 1
                def admits(k, lab):
                    return all(all(l in ag for ag in k[key]) for key, l in zip(keys, lab))
                cnt = sum(1 for k in km if admits(k, lab))
                has_new = "new" in lab
                if is_func and len(keys) == 2:
                    swapped = (lab[1], lab[0])
                    cnt2 = sum(1 for k in km if admits(k, swapped))
                    ok = (max(cnt, cnt2) >= 1) if has_new else (cnt == 0)
                else:
                    ok = (cnt == 1) if has_new else (cnt == 0)
                if not ok:
                    bad.append("%s family %s: labelling %s of atoms %s is enumerated by %d sub-rules (expected %s)" % (
                        mname, fam, list(lab), keys, cnt, "exactly 1" if has_new else "0"))
                    break
    return bad, stats
