"""Compile-side checks: C09 (accepted programs build in both modes), C16 (semi-naive plan
validation on the emitted code), and the CLI workloads C10-C13 (see cli_*.py)."""
import json
import os
import random

from . import driver, gen, plan
from .checks_model import (PROFILES_ALL, _cnt, _empty_out, _inc, _vio, aggregate, load_theory, specs_for)
from .modelrun import pmap, theory_feature_hist
from .theory import Sig, emit
from .util import Result, seed, sha


# ---------------------------------------------------------------------------------------------
# C16 static: plan validation


def c16_task(task):
    out = _empty_out()
    try:
        th = load_theory(task["spec"])
    except Exception:
        _inc(out, "theory-not-loadable")
        return out
    meta = driver.compile_theory(th)
    if not meta["ok"]:
        if meta["stage"] == "eqlog" and meta.get("eqlog_rc") == 1:
            _cnt(out, "programs_rejected_by_compiler")
        else:
            _inc(out, "build-failed:" + meta["stage"])
        return out
    with open(os.path.join(meta["dir"], "out", th["name"] + ".eql.rs")) as f:
        txt = f.read()
    try:
        bad, st = plan.check_module(txt)
    except plan.PlanParseError as e:
        _inc(out, "plan-parse-error")
        out.setdefault("notes", []).append(str(e)[:300])
        return out
    _cnt(out, "programs")
    _cnt(out, "families", st["families"])
    _cnt(out, "sub_rules", st["members"])
    _cnt(out, "labellings_checked", st["labellings"])
    out["counts"]["max_premise_atoms"] = st["max_atoms"]
    out["evaluations"] += st["families"]
    for k, v in theory_feature_hist(th).items():
        out["features"][k] = out["features"].get(k, 0) + v
    if st["families"] and st["max_atoms"] >= 2:
        out["distinct"].append(sha(th.get("text") or emit(th))[:16])
    if bad:
        out["violations"].append(_vio("c16:" + bad[0].split(":")[0][:40].split(" family")[0], "the emitted semi-naive plan is not a partition of the new/old labellings:\n  " + "\n  ".join(bad[:6]), th, "",
                                      {"module.rs": txt}))
    if not out["samples"] and plan.split_mods(txt)[0]:
        fns = plan.parse_functions(plan.split_mods(txt)[0].get(sorted(plan.split_mods(txt)[0])[-1], ""))
        out["samples"].append({"theory": (th.get("text") or emit(th))[:600],
                               "family": [{"fn": f["name"], "premise": f["premise"], "ages_read_in_body": [sorted(a) for a in plan.body_ages(f)]} for f in fns[:4]]})
    return out


def c16(tier, replay=None):
    res = Result("C16", tier, level="translation_validation")
    res.rule = ("one evaluation = one rule family (sub-rule functions name_stage_0..n-1) of one compiled program, validated for all 2^n new/old "
                "labellings of its n premise atoms: exactly one member admits a labelling with a new atom, none the all-old labelling; members "
                "have equal atoms and conclusions; the ages read in each function body (env.<rel>_new_/_old_ fields bound and used per premise "
                "position) equal the ages of the flat-rule comment; functionality families up to their symmetry; distinct non-trivial = programs "
                "with a family of >= 2 premise atoms")
    res.assumptions = ["the per-position sets `set<k>_<field>_r0 = env.<field>` are how generated rule code reads indices (layout of rust_gen/rule.rs)",
                       "rules with an empty premise run in every iteration by design and are exempt"]
    q = tier == "quick"
    specs = specs_for(tier, 400, 4000, PROFILES_ALL)
    outs = pmap(c16_task, [{"spec": s, "seed": seed()} for s in specs])
    aggregate(res, outs)
    res.cov["programs"] = res.cov.get("programs", 0)
    res.cov["disagreements_checked"] = len(res.violations)
    return res.finish()


# ---------------------------------------------------------------------------------------------
# C09: accepted programs compile and link in both build modes


EXTRA_PROGRAMS = {
    "empty_theory": "",
    "only_types": "type A;\ntype B;\n",
    "enum_no_rules": "type A;\nenum E {\n    Lf(),\n    Nd(E, A)\n}\n",
    "nullary_only": "pred on();\npred off();\nrule flip {\n    if on();\n    then off();\n}\n",
    "constants": "type A;\nfunc c() -> A;\nfunc d() -> A;\nrule same {\n    if x = c();\n    if y = d();\n    then x = y;\n}\n",
    "empty_premise": "type A;\nfunc c() -> A;\npred ok(A);\nrule mk {\n    then x := c()!;\n    then ok(x);\n}\n",
    "guard_fully_bound": "type A;\npred p(A, A);\npred q(A, A);\nrule g {\n    if p(x, y);\n    if q(x, y);\n    if p(y, x);\n    then q(y, x);\n}\n",
    "arity_nine": "type A;\npred w(A, A, A, A, A, A, A, A, A);\npred o(A);\nrule d {\n    if w(a, a, b, b, a, a, b, b, a);\n    then o(a);\n}\n",
    "rule_without_conclusion": "type A;\npred le(A, A);\nrule watch {\n    if le(x, y);\n    if le(y, x);\n}\nrule refl {\n    if le(x, _);\n    then le(x, x);\n}\n",
    "two_diagonal_patterns": "type A;\npred tri(A, A, A);\npred o(A);\nrule a {\n    if tri(x, y, x);\n    then o(y);\n}\nrule b {\n    if tri(x, y, y);\n    then o(x);\n}\nrule c {\n    if tri(x, x, y);\n    then o(y);\n}\n",
    "two_function_diagonals": "type A;\nfunc mul(A, A) -> A;\npred o(A);\nrule a {\n    if mul(x, y) = x;\n    then o(y);\n}\nrule b {\n    if mul(x, y) = y;\n    then o(x);\n}\n",
    "only_rule_without_conclusion": "type A;\npred p(A);\nrule w {\n    if p(_);\n}\n",
    "func_arity_eight": "type A;\nfunc f(A, A, A, A, A, A, A, A) -> A;\nrule t {\n    if r = f(a, b, a, b, a, b, a, b);\n    then f(b, a, b, a, b, a, b, a) = r;\n}\n",
}


def c09_task(task):
    out = _empty_out()
    spec = task["spec"]
    try:
        if spec[0] == "text":
            from . import parser
            th = parser.parse(spec[2], spec[1])
        else:
            th = load_theory(spec)
    except Exception:
        _inc(out, "theory-not-loadable")
        return out
    sig = Sig(th)
    feats = theory_feature_hist(th)
    if any(len(c) >= 6 for c in sig.rels.values()):
        feats["arity_6plus"] = 1
    if any(len(c) == 0 for c in sig.preds.values()):
        feats["nullary_pred_decl"] = 1
    if sig.enums:
        feats["enum_decl"] = 1
    for mode in ("module", "component"):
        if mode == "component" and not task.get("component", True):
            continue
        meta = driver.compile_theory(th, mode=mode)
        if not meta["ok"] and meta["stage"] == "eqlog":
            if meta.get("eqlog_rc") == 1:
                _cnt(out, "programs_rejected_by_compiler")
                return out
            what = "the compiler neither accepted nor rejected the program (%s build): exit status %s\n%s" % (mode, meta.get("eqlog_rc"), meta["stderr"][-1500:])
            out["violations"].append(_vio("c09:compiler-crash:" + mode, what, th, ""))
            return out
        out["evaluations"] += 1
        _cnt(out, "builds_" + mode)
        if not meta["ok"]:
            if meta["stage"] == "probe":
                _inc(out, "probe-cannot-classify")
                continue
            what = "the compiler accepted the program but the generated Rust does not build (%s build, stage %s):\n%s" % (mode, meta["stage"], meta["stderr"][-2500:])
            out["violations"].append(_vio("c09:rust-does-not-build:" + mode, what, th, ""))
            return out
        # link + run: new() and close() on the empty model
        st, hs, raw, err = driver.run_script(meta, [("smoke", 1, [["close", 3]])], timeout=60, script_name="script_c09.txt")
        if st.startswith("crash"):
            out["violations"].append(_vio("c09:smoke-crash:" + mode, "driver linked against the %s build crashes on new()+close(): %s\n%s" % (mode, st, err[-800:]), th, ""))
            return out
    _cnt(out, "programs")
    if th.get("member"):
        feats["model_declaration"] = 1
        if any(len(p["args"]) >= 3 for p in th["preds"] if p["name"] in th["member"]):
            feats["member_pred_with_2plus_columns"] = 1
    for k, v in feats.items():
        out["features"][k] = out["features"].get(k, 0) + 1
    out["distinct"].append(sha(th.get("text") or emit(th))[:16])
    if not out["samples"]:
        out["samples"].append({"program": (th.get("text") or emit(th))[:700], "modes": ["module", "component"] if task.get("component", True) else ["module"]})
    return out


def c09(tier, replay=None):
    res = Result("C09", tier)
    res.rule = ("one evaluation = one accepted program built in one build mode by the real compiler and rustc (module: driver including the module; "
                "component: the compiler's own rustc invocations per rule + final link of all rlibs) and smoke-run (new + close); a compiler exit "
                "status other than 0/1 is a violation; distinct = distinct accepted program texts; feature histogram in rule_shape_features")
    res.assumptions = ["identifiers avoid Rust keywords and generator-internal names; relations have <= 9 columns (the stated range)"]
    q = tier == "quick"
    specs = specs_for(tier, 260, 3000, PROFILES_ALL + ["wide", "wide"])
    ncomp = 70 if q else 800
    tasks = [{"spec": s, "seed": seed(), "component": i < ncomp} for i, s in enumerate(specs)]
    tasks += [{"spec": ("text", n, t), "seed": seed(), "component": True} for n, t in sorted(EXTRA_PROGRAMS.items())]
    # programs with a `model` declaration (member predicates of several columns, morphism constants)
    nm = 40 if q else 400
    tasks += [{"spec": ("model", seed() * 100003 + 950000 + i), "seed": seed(), "component": i < (12 if q else 80)} for i in range(nm)]
    aggregate(res, pmap(c09_task, tasks))
    return res.finish()


TABLE = {"C09": c09, "C16": c16}

try:
    from . import cli_checks
    TABLE.update(cli_checks.TABLE)
except ImportError:
    pass
from . import c11 as _c11
TABLE["C11"] = _c11.c11
from . import c10 as _c10
TABLE["C10"] = _c10.c10
