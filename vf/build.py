"""Build the system under test from /repo's working tree (idempotent, flock-serialised).

mirror  <- rsync of /repo (never build inside /repo: with feature `rebuild` the build script of
           eqlog-eqlog may rewrite prebuilt/eqlog.rs in its source directory)
eqlog   <- cargo build --features rebuild,verif   (CLI binary, debug profile)
rtlib   <- rustc on mirror/eqlog-runtime (plain rlib with cfg feature="verif")
vf-rt   <- cargo build --release of /verif/rt against the mirror's runtime
shim    <- gcc libfsfault.so
"""
import json
import os
import shutil
import sys
import time

from .util import (EQLOG_BIN, MIRROR, REPO, RT_BIN, RT_TARGET, RTLIB_DIR, TARGET, VERIF, WORK, Lock,
                   env_with, run, sha, tree_hash)

STAMP = os.path.join(WORK, "build.stamp.json")


def _read_stamp():
    try:
        with open(STAMP) as f:
            return json.load(f)
    except Exception:
        return {}


def _write_stamp(st):
    with open(STAMP + ".tmp", "w") as f:
        json.dump(st, f, indent=1)
    os.replace(STAMP + ".tmp", STAMP)


def sync_mirror():
    os.makedirs(WORK, exist_ok=True)
    cmd = ["rsync", "-a", "--delete", "--exclude", "/target", "--exclude", "target/"]
    # prebuilt/eqlog.rs is derived from eqlog.eql under `rebuild`; once the mirror has a copy,
    # leave the mirror's (possibly regenerated) one alone so that cargo does not rebuild the
    # 4.4 MB model crate on every invocation.
    if os.path.exists(os.path.join(MIRROR, "eqlog-eqlog", "prebuilt", "eqlog.rs")):
        cmd += ["--exclude", "/eqlog-eqlog/prebuilt/eqlog.rs"]
    cmd += [REPO.rstrip("/") + "/", MIRROR + "/"]
    run(cmd, check=True)


def build_compiler(log):
    t0 = time.time()
    rc, out, err = run(
        ["cargo", "build", "--offline", "--features", "rebuild,verif"],
        cwd=os.path.join(MIRROR, "eqlog"),
        env=env_with({"CARGO_TARGET_DIR": TARGET}),
        timeout=3600,
    )
    log.append("cargo build eqlog: rc=%s %.1fs" % (rc, time.time() - t0))
    if rc != 0:
        raise RuntimeError("building the eqlog compiler from the mirror failed:\n" + err[-6000:])


def runtime_hash():
    return tree_hash(os.path.join(MIRROR, "eqlog-runtime"))


def build_rtlib(log, variant="plain"):
    """Compile eqlog-runtime with plain rustc into <RTLIB_DIR>/<variant>/libeqlog_runtime.rlib."""
    d = os.path.join(RTLIB_DIR, variant)
    os.makedirs(d, exist_ok=True)
    out = os.path.join(d, "libeqlog_runtime.rlib")
    src = os.path.join(MIRROR, "eqlog-runtime", "src", "lib.rs")
    cmd = ["rustc"]
    extra = []
    if variant == "asan":
        cmd = ["rustc", "+nightly"]
        extra = ["-Zsanitizer=address", "-Cforce-frame-pointers=yes", "--target", "x86_64-unknown-linux-gnu"]
    cmd += [
        src, "--crate-type=rlib", "--crate-name", "eqlog_runtime", "--edition=2021",
        "-C", "opt-level=1", "-C", "debug-assertions=on", "-C", "overflow-checks=on",
        "--cfg", 'feature="verif"', "--check-cfg", 'cfg(feature, values("verif"))',
        "-A", "warnings", "-o", out,
    ] + extra
    t0 = time.time()
    rc, o, e = run(cmd, env=env_with({"OUT_DIR": d}), timeout=900)
    log.append("rustc eqlog-runtime (%s): rc=%s %.1fs" % (variant, rc, time.time() - t0))
    if rc != 0:
        raise RuntimeError("compiling eqlog-runtime (%s) failed:\n%s" % (variant, e[-4000:]))
    return out


def rtlib_path(variant="plain"):
    return os.path.join(RTLIB_DIR, variant, "libeqlog_runtime.rlib")


def rt_src_dir():
    return os.path.join(WORK, "rt-src")


def build_rt(log):
    t0 = time.time()
    # build a copy of /verif/rt whose dependency path points at this work area's mirror
    rtdir = rt_src_dir()
    run(["rsync", "-a", "--delete", "--exclude", "target", "--exclude", "Cargo.lock", os.path.join(VERIF, "rt") + "/", rtdir + "/"], check=True)
    ct = os.path.join(rtdir, "Cargo.toml")
    with open(ct) as f:
        txt = f.read()
    txt = txt.replace("../.work/mirror/eqlog-runtime", os.path.join(MIRROR, "eqlog-runtime"))
    with open(ct, "w") as f:
        f.write(txt)
    rc, out, err = run(
        ["cargo", "build", "--offline", "--release"],
        cwd=rtdir,
        env=env_with({"CARGO_TARGET_DIR": RT_TARGET}),
        timeout=1800,
    )
    log.append("cargo build vf-rt: rc=%s %.1fs" % (rc, time.time() - t0))
    if rc != 0:
        raise RuntimeError("building vf-rt failed:\n" + err[-6000:])


def build_shim(log):
    src = os.path.join(VERIF, "shim", "libfsfault.c")
    if not os.path.exists(src):
        return
    out = os.path.join(WORK, "libfsfault.so")
    if os.path.exists(out) and os.path.getmtime(out) >= os.path.getmtime(src):
        return
    rc, o, e = run(["gcc", "-O1", "-shared", "-fPIC", "-o", out, src, "-ldl"], timeout=120)
    log.append("gcc libfsfault: rc=%s" % rc)
    if rc != 0:
        raise RuntimeError("compiling libfsfault failed:\n" + e[-3000:])


def build(verbose=False, need=("compiler", "rtlib", "rt", "shim")):
    """Returns the stamp dict. Raises RuntimeError when the tree does not build."""
    log = []
    with Lock("build"):
        sync_mirror()
        th = tree_hash(MIRROR)
        vh = tree_hash(os.path.join(VERIF, "rt"), exclude=(".git", "target")) + tree_hash(os.path.join(VERIF, "shim")) if os.path.isdir(os.path.join(VERIF, "shim")) else tree_hash(os.path.join(VERIF, "rt"))
        st = _read_stamp()
        fresh = (
            st.get("tree") == th
            and st.get("verif") == vh
            and st.get("repo") == REPO
            and os.path.exists(EQLOG_BIN)
            and os.path.exists(RT_BIN)
            and os.path.exists(rtlib_path())
        )
        if not fresh:
            if os.path.exists(STAMP):
                os.unlink(STAMP)
            build_compiler(log)
            build_rtlib(log, "plain")
            build_rt(log)
            build_shim(log)
            # the compiler identity: hash of the binary (keys caches of compiled theories)
            with open(EQLOG_BIN, "rb") as f:
                import hashlib
                bh = hashlib.sha256(f.read()).hexdigest()
            st = {"tree": th, "verif": vh, "repo": REPO, "compiler": bh, "runtime": runtime_hash(), "log": log, "at": time.time()}
            _write_stamp(st)
        if verbose:
            for l in log:
                print(l)
            print("build %s tree=%s" % ("fresh" if fresh else "rebuilt", th[:12]))
    return st


def build_asan_rtlib():
    with Lock("build-asan"):
        st = _read_stamp()
        out = rtlib_path("asan")
        marker = out + ".hash"
        rh = st.get("runtime") or runtime_hash()
        if os.path.exists(out) and os.path.exists(marker) and open(marker).read() == rh:
            return out
        log = []
        build_rtlib(log, "asan")
        with open(marker, "w") as f:
            f.write(rh)
        return out


if __name__ == "__main__":
    try:
        build(verbose=True)
    except RuntimeError as e:
        print("BUILD FAILED\n" + str(e))
        sys.exit(2)
