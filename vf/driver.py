"""Per-theory driver (script interpreter + recorder) and in-module probe, compile and run helpers.

The driver source `include!`s the generated module and the probe into one Rust module, so the
probe can read the model's private fields (index copies, element indices, union-find, uprooted
lists) without any change to eqlog. Every op of a script is executed under catch_unwind and
recorded as one JSON line; close/close_until always run with a recording condition closure.
"""
import json
import os
import re
import shutil

from . import build as _build
from .theory import Sig, camel, emit, snake
from .util import EQLOG_BIN, WORK, env_with, run, sha

CACHE = os.path.join(WORK, "cache")


class HarnessError(Exception):
    pass


def parse_struct_fields(text, struct_name):
    m = re.search(r"^(?:pub )?struct %s\s*\{(.*?)^\}" % re.escape(struct_name), text, re.S | re.M)
    if not m:
        raise HarnessError("struct %s not found in generated module" % struct_name)
    fields = []
    for line in m.group(1).splitlines():
        line = line.strip().rstrip(",")
        if not line or line.startswith("//") or line.startswith("#"):
            continue
        mm = re.match(r"^(?:pub )?([a-z_0-9]+)\s*:\s*(.+)$", line)
        if not mm:
            raise HarnessError("cannot parse struct field line: " + line)
        fields.append((mm.group(1), mm.group(2).strip()))
    return fields


def classify_fields(fields):
    """Returns dict with lists: index (name, arity), elidx (name, arity), eqs, weights, uprooted, bools."""
    out = {"index": [], "elidx": [], "eqs": [], "weights": [], "uprooted": [], "bools": []}
    for name, ty in fields:
        m = re.match(r"^PrefixTree(\d)$", ty)
        if m:
            out["index"].append((name, int(m.group(1))))
            continue
        m = re.match(r"^BTreeMap<u32, Vec<\[u32; (\d+)\]>>$", ty)
        if m:
            out["elidx"].append((name, int(m.group(1))))
            continue
        if re.match(r"^Unification<\w+>$", ty):
            out["eqs"].append(name)
            continue
        if ty == "Vec<usize>":
            out["weights"].append(name)
            continue
        if re.match(r"^Vec<\w+>$", ty):
            out["uprooted"].append(name)
            continue
        if ty == "bool":
            out["bools"].append(name)
            continue
        raise HarnessError("unclassified model field %s: %s" % (name, ty))
    return out


def parse_index_name(name, rel_snakes, type_snakes):
    """Decode an index field name: returns dict(rel|type, age, eqs, order, suffix)."""
    m = re.match(r"^(.*)_(new|old)(?:_eqs_((?:\d+_?)+))?_order_((?:\d+_?)*)(?:_(own|all))?$", name)
    if not m:
        # nullary: `<rel>_<age>_order_`
        raise HarnessError("cannot decode index field name " + name)
    base, age, eqs, order, suffix = m.groups()
    eqs_l = [int(x) for x in eqs.strip("_").split("_")] if eqs else None
    order_l = [int(x) for x in order.strip("_").split("_")] if order.strip("_") else []
    kind = "rel" if base in rel_snakes else ("type" if base in type_snakes else None)
    if kind is None:
        raise HarnessError("index field %s names neither a relation nor a type" % name)
    return {"kind": kind, "base": base, "age": age, "eqs": eqs_l, "order": order_l, "suffix": suffix}


def rs_str(s):
    return '"' + s.replace("\\", "\\\\").replace('"', '\\"') + '"'


def gen_driver(sig, theory_name, module_text):
    """Rust source of the driver for this theory (expects <name>.eql.rs next to it)."""
    Th = camel(theory_name)
    fields = parse_struct_fields(module_text, Th)
    cls = classify_fields(fields)
    delta_fields = parse_struct_fields(module_text, "ModelDelta")
    has_hook = "self.verif_hook(" in module_text
    types = sig.all_types
    W = []
    w = W.append
    w("#![allow(warnings)]")
    w("extern crate eqlog_runtime;")
    w("use std::cell::{Cell, RefCell};")
    w("use std::collections::BTreeMap;")
    w("use std::io::Write;")
    w("use std::fmt::Write as FmtWrite;")
    w("thread_local! {")
    w("  pub static OUT: RefCell<std::io::BufWriter<std::io::Stdout>> = RefCell::new(std::io::BufWriter::with_capacity(1 << 16, std::io::stdout()));")
    w("  pub static OBS: Cell<u32> = Cell::new(1);")
    w("  pub static PANIC_MSG: RefCell<String> = RefCell::new(String::new());")
    w("}")
    w("pub fn emit(s: &str) { OUT.with(|o| { let mut o = o.borrow_mut(); o.write_all(s.as_bytes()).unwrap(); o.write_all(b\"\\n\").unwrap(); }); }")
    w("pub fn flush() { OUT.with(|o| { o.borrow_mut().flush().unwrap(); }); }")
    w("pub fn rows_json<const N: usize>(it: impl Iterator<Item = [u32; N]>, out: &mut String) { out.push('['); let mut first = true; for r in it { if !first { out.push(','); } first = false; out.push('['); for (i, x) in r.iter().enumerate() { if i > 0 { out.push(','); } write!(out, \"{}\", x).unwrap(); } out.push(']'); } out.push(']'); }")
    w("pub fn vec_json(v: &[u32], out: &mut String) { out.push('['); for (i, x) in v.iter().enumerate() { if i > 0 { out.push(','); } write!(out, \"{}\", x).unwrap(); } out.push(']'); }")
    w("pub fn jstr(s: &str) -> String { let mut o = String::from(\"\\\"\"); for c in s.chars() { match c { '\"' => o.push_str(\"\\\\\\\"\"), '\\\\' => o.push_str(\"\\\\\\\\\"), '\\n' => o.push_str(\"\\\\n\"), c if (c as u32) < 0x20 => { write!(o, \"\\\\u{:04x}\", c as u32).unwrap(); } c => o.push(c) } } o.push('\"'); o }")
    w("mod th {")
    w("  use super::{rows_json, vec_json, emit, OBS};")
    w("  use std::fmt::Write as FmtWrite;")
    w("  include!(%s);" % rs_str(theory_name + ".eql.rs"))
    w("  impl %s {" % Th)
    # allocated ids per type
    w("    pub fn verif_alloc(&self, ty: &str) -> usize { match ty {")
    for t in types:
        w("      %s => self.%s_equalities.len()," % (rs_str(t), snake(t)))
    w("      _ => panic!(\"verif_alloc: unknown type\") } }")
    # private dump
    w("    pub fn verif_dump_private(&self, out: &mut String) {")
    w("      out.push_str(\"{\\\"index\\\":{\");")
    for i, (name, ar) in enumerate(cls["index"]):
        w("      out.push_str(%s); rows_json(self.%s.iter(), out);" % (rs_str(("," if i else "") + '"%s":' % name), name))
    w("      out.push_str(\"},\\\"elidx\\\":{\");")
    for i, (name, ar) in enumerate(cls["elidx"]):
        w("      out.push_str(%s); out.push('{'); { let mut first = true; for (k, v) in self.%s.iter() { if !first { out.push(','); } first = false; write!(out, \"\\\"{}\\\":\", k).unwrap(); rows_json(v.iter().cloned(), out); } } out.push('}');" % (rs_str(("," if i else "") + '"%s":' % name), name))
    w("      out.push_str(\"},\\\"uprooted\\\":{\");")
    for i, name in enumerate(cls["uprooted"]):
        w("      out.push_str(%s); { let v: Vec<u32> = self.%s.iter().map(|x| x.0).collect(); vec_json(&v, out); }" % (rs_str(("," if i else "") + '"%s":' % name), name))
    w("      out.push_str(\"},\\\"weights\\\":{\");")
    for i, name in enumerate(cls["weights"]):
        w("      out.push_str(%s); { let v: Vec<u32> = self.%s.iter().map(|x| (*x).min(u32::MAX as usize) as u32).collect(); vec_json(&v, out); }" % (rs_str(("," if i else "") + '"%s":' % name), name))
    w("      out.push_str(\"},\\\"bools\\\":{\");")
    for i, name in enumerate(cls["bools"]):
        w("      out.push_str(%s); write!(out, \"{}\", self.%s).unwrap();" % (rs_str(("," if i else "") + '"%s":' % name), name))
    w("      write!(out, \"}},\\\"is_dirty\\\":{}}}\", self.is_dirty()).unwrap();")
    w("    }")
    # hook
    w("    pub fn verif_hook(&self, point: u32, delta: &ModelDelta) {")
    w("      if OBS.with(|o| o.get()) < 3 { return; }")
    w("      let mut out = String::new();")
    w("      write!(out, \"{{\\\"e\\\":\\\"hook\\\",\\\"point\\\":{},\\\"delta\\\":{{\", point).unwrap();")
    for i, (name, ty) in enumerate(delta_fields):
        w("      out.push_str(%s); rows_json(delta.%s.iter().cloned(), &mut out);" % (rs_str(("," if i else "") + '"%s":' % name), name))
    w("      out.push_str(\"},\\\"private\\\":\"); self.verif_dump_private(&mut out); out.push('}');")
    w("      emit(&out);")
    w("    }")
    w("  }")
    w("}")
    w("use th::*;")
    w("type M = %s;" % Th)
    # ---- generic dispatch
    w("fn do_new(m: &mut M, ty: &str, parent: Option<u32>) -> u32 { match ty {")
    mtypes = sig.th.get("member_types", {})
    for t in sig.types:
        if t in mtypes:
            # element of a member type: created inside a model (the parent)
            w("  %s => m.new_%s(%s(parent.expect(\"member type needs a parent\"))).0," % (rs_str(t), snake(t), mtypes[t][0]))
        else:
            w("  %s => m.new_%s().0," % (rs_str(t), snake(t)))
    w("  _ => panic!(\"do_new: not a plain type\") } }")
    w("fn do_equate(m: &mut M, ty: &str, a: u32, b: u32) { match ty {")
    for t in types:
        w("  %s => m.equate_%s(%s(a), %s(b))," % (rs_str(t), snake(t), t, t))
    w("  _ => panic!(\"do_equate\") } }")
    w("fn do_root(m: &M, ty: &str, a: u32) -> u32 { match ty {")
    for t in types:
        w("  %s => m.root_%s(%s(a)).0," % (rs_str(t), snake(t), t))
    w("  _ => panic!(\"do_root\") } }")
    w("fn do_areeq(m: &M, ty: &str, a: u32, b: u32) -> bool { match ty {")
    for t in types:
        w("  %s => m.are_equal_%s(%s(a), %s(b))," % (rs_str(t), snake(t), t, t))
    w("  _ => panic!(\"do_areeq\") } }")
    w("fn do_itertype(m: &M, ty: &str) -> Vec<u32> { match ty {")
    for t in types:
        w("  %s => m.iter_%s().map(|x| x.0).collect()," % (rs_str(t), snake(t)))
    w("  _ => panic!(\"do_itertype\") } }")

    def args_expr(cols, src="a"):
        return ", ".join("%s(%s[%d])" % (t, src, i) for i, t in enumerate(cols))

    w("fn do_ins(m: &mut M, r: &str, a: &[u32]) { match r {")
    for r, cols in sorted(sig.rels.items()):
        w("  %s => m.insert_%s(%s)," % (rs_str(r), snake(r), args_expr(cols)))
    w("  _ => panic!(\"do_ins\") } }")
    w("fn do_iter(m: &M, r: &str) -> Vec<Vec<u32>> { match r {")
    for r, cols in sorted(sig.rels.items()):
        n = len(cols)
        if n == 0:
            w("  %s => if m.%s() { vec![vec![]] } else { vec![] }," % (rs_str(r), snake(r)))
        elif n == 1:
            w("  %s => m.iter_%s().map(|x| vec![x.0]).collect()," % (rs_str(r), snake(r)))
        else:
            pat = ", ".join("x%d" % i for i in range(n))
            w("  %s => m.iter_%s().map(|(%s)| vec![%s]).collect()," % (rs_str(r), snake(r), pat, ", ".join("x%d.0" % i for i in range(n))))
    w("  _ => panic!(\"do_iter\") } }")
    w("fn do_pred(m: &M, r: &str, a: &[u32]) -> bool { match r {")
    for p, cols in sorted(sig.preds.items()):
        w("  %s => m.%s(%s)," % (rs_str(p), snake(p), args_expr(cols)))
    w("  _ => panic!(\"do_pred\") } }")
    w("fn do_eval(m: &M, f: &str, a: &[u32]) -> Option<u32> { match f {")
    for f, (cols, res) in sorted(sig.funcs.items()):
        w("  %s => m.%s(%s).map(|x| x.0)," % (rs_str(f), snake(f), args_expr(cols)))
    w("  _ => panic!(\"do_eval\") } }")
    w("fn do_def(m: &mut M, f: &str, a: &[u32]) -> u32 { match f {")
    for f, (cols, res) in sorted(sig.funcs.items()):
        if sig.definable(f):
            w("  %s => m.define_%s(%s).0," % (rs_str(f), snake(f), args_expr(cols)))
    w("  _ => panic!(\"do_def: no define function\") } }")
    w("fn do_newenum(m: &mut M, e: &str, c: &str, a: &[u32]) -> u32 { match (e, c) {")
    for e in sig.enums.values():
        for c in e["ctors"]:
            w("  (%s, %s) => m.new_%s(%sCase::%s(%s)).0," % (rs_str(e["name"]), rs_str(c["name"]), snake(e["name"]), e["name"], c["name"], args_expr(c["args"])))
    w("  _ => panic!(\"do_newenum\") } }")
    w("fn case_json(e: &str, m: &M, id: u32, all: bool) -> String { let mut out = String::from(\"[\"); match e {")
    for e in sig.enums.values():
        E = e["name"]
        w("  %s => { let cases: Vec<%sCase> = if all { m.%s_cases(%s(id)).collect() } else { vec![m.%s_case(%s(id))] };" % (rs_str(E), E, snake(E), E, snake(E), E))
        w("    for (i, c) in cases.iter().enumerate() { if i > 0 { out.push(','); } match c {")
        for c in e["ctors"]:
            n = len(c["args"])
            pat = ", ".join("x%d" % i for i in range(n))
            w("      %sCase::%s(%s) => { write!(out, \"[\\\"%s\\\"\").unwrap(); %s out.push(']'); }" % (
                E, c["name"], pat, c["name"], " ".join("write!(out, \",{}\", x%d.0).unwrap();" % i for i in range(n))))
        w("    } } }")
    w("  _ => panic!(\"case_json\") } out.push(']'); out }")
    # public dump
    w("fn dump_public(m: &M, out: &mut String) {")
    w("  out.push_str(\"{\\\"types\\\":{\");")
    for i, t in enumerate(types):
        w("  out.push_str(%s); vec_json(&do_itertype(m, %s), out);" % (rs_str(("," if i else "") + '"%s":' % t), rs_str(t)))
    w("  out.push_str(\"},\\\"roots\\\":{\");")
    for i, t in enumerate(types):
        w("  out.push_str(%s); { let n = m.verif_alloc(%s); let v: Vec<u32> = (0..n as u32).map(|x| do_root(m, %s, x)).collect(); vec_json(&v, out); }" % (rs_str(("," if i else "") + '"%s":' % t), rs_str(t), rs_str(t)))
    w("  out.push_str(\"},\\\"rels\\\":{\");")
    for i, r in enumerate(sorted(sig.rels)):
        w("  out.push_str(%s); { out.push('['); for (j, row) in do_iter(m, %s).iter().enumerate() { if j > 0 { out.push(','); } vec_json(row, out); } out.push(']'); }" % (rs_str(("," if i else "") + '"%s":' % r), rs_str(r)))
    w("  out.push_str(\"}}\");")
    w("}")
    w("static TYPE_NAMES: &[&str] = &[%s];" % ", ".join(rs_str(t) for t in types))
    # point-query sweep: every predicate / function on every tuple of allocated ids (roots and
    # non-roots) while the product stays below a limit, otherwise a deterministic sample
    w("fn tuples_over(m: &M, cols: &[&str], limit: usize) -> (Vec<Vec<u32>>, bool) {")
    w("  let sizes: Vec<usize> = cols.iter().map(|t| m.verif_alloc(t)).collect();")
    w("  let mut total: usize = 1; for s in &sizes { total = total.saturating_mul(*s); }")
    w("  let mut out = vec![]; if total == 0 { return (out, false); }")
    w("  let stride = if total <= limit { 1 } else { total / limit + 1 };")
    w("  let mut i = 0usize; while i < total { let mut rem = i; let mut t = vec![0u32; cols.len()]; for c in (0..cols.len()).rev() { t[c] = (rem % sizes[c]) as u32; rem /= sizes[c]; } out.push(t); i += stride; }")
    w("  (out, stride > 1) }")
    w("fn sweep_json(m: &M, out: &mut String) {")
    w("  let mut truncated = false;")
    w("  out.push_str(\"{\\\"preds\\\":{\");")
    for i, (p, cols) in enumerate(sorted(sig.preds.items())):
        w("  out.push_str(%s); { let (ts, tr) = tuples_over(m, &[%s], 2048); truncated |= tr; out.push('['); let mut first = true; for t in ts.iter() { if do_pred(m, %s, t) { if !first { out.push(','); } first = false; vec_json(t, out); } } out.push(']'); }" % (
            rs_str(("," if i else "") + '"%s":' % p), ", ".join(rs_str(c) for c in cols), rs_str(p)))
    w("  out.push_str(\"},\\\"funcs\\\":{\");")
    for i, (f, (cols, res)) in enumerate(sorted(sig.funcs.items())):
        w("  out.push_str(%s); { let (ts, tr) = tuples_over(m, &[%s], 2048); truncated |= tr; out.push('['); let mut first = true; for t in ts.iter() { if let Some(r) = do_eval(m, %s, t) { if !first { out.push(','); } first = false; let mut row = t.clone(); row.push(r); vec_json(&row, out); } } out.push(']'); }" % (
            rs_str(("," if i else "") + '"%s":' % f), ", ".join(rs_str(c) for c in cols), rs_str(f)))
    w("  out.push_str(\"},\\\"cases\\\":{\");")
    for i, e in enumerate(sig.enums.values()):
        E = e["name"]
        w("  out.push_str(%s); { out.push('['); let n = m.verif_alloc(%s); for id in 0..n as u32 { if id > 0 { out.push(','); } out.push_str(&case_json(%s, m, id, true)); } out.push(']'); }" % (
            rs_str(("," if i else "") + '"%s":' % E), rs_str(E), rs_str(E)))
    w("  out.push_str(\"},\\\"case1\\\":{\");")
    for i, e in enumerate(sig.enums.values()):
        E = e["name"]
        w("  out.push_str(%s); { out.push('['); let n = m.verif_alloc(%s); for id in 0..n as u32 { if id > 0 { out.push(','); } match std::panic::catch_unwind(std::panic::AssertUnwindSafe(|| case_json(%s, m, id, false))) { Ok(s) => out.push_str(&s), Err(_) => out.push_str(\"\\\"panic\\\"\") } } out.push(']'); }" % (
            rs_str(("," if i else "") + '"%s":' % E), rs_str(E), rs_str(E)))
    w("  write!(out, \"}},\\\"truncated\\\":{}}}\", truncated).unwrap();")
    w("}")
    w(DRIVER_MAIN)
    return "\n".join(W) + "\n"


DRIVER_MAIN = r'''
#[derive(Clone, Debug)]
enum Cond { Never, Pred(String, Vec<u32>), AreEq(String, u32, u32), Defined(String, Vec<u32>), Count(String, usize) }

fn eval_cond(m: &M, c: &Cond) -> bool {
    match c {
        Cond::Never => false,
        Cond::Pred(r, a) => do_pred(m, r, a),
        Cond::AreEq(t, a, b) => do_areeq(m, t, *a, *b),
        Cond::Defined(f, a) => do_eval(m, f, a).is_some(),
        Cond::Count(r, k) => do_iter(m, r).len() >= *k,
    }
}

struct St { regs: BTreeMap<String, (String, u32)> }

fn resolve(st: &St, labs: &[&str]) -> Option<Vec<u32>> {
    let mut v = vec![];
    for l in labs { match st.regs.get(*l) { Some((_, id)) => v.push(*id), None => return None } }
    Some(v)
}

fn parse_conds(st: &St, toks: &[&str]) -> Option<Vec<Cond>> {
    let mut out = vec![];
    for part in toks.split(|t| *t == "|") {
        if part.is_empty() { continue; }
        let c = match part[0] {
            "never" => Cond::Never,
            "pred" => Cond::Pred(part[1].to_string(), resolve(st, &part[2..])?),
            "areeq" => { let v = resolve(st, &part[2..4])?; Cond::AreEq(part[1].to_string(), v[0], v[1]) }
            "defined" => Cond::Defined(part[1].to_string(), resolve(st, &part[2..])?),
            "count" => Cond::Count(part[1].to_string(), part[2].parse().unwrap()),
            _ => panic!("bad cond"),
        };
        out.push(c);
    }
    Some(out)
}

fn alloc_total(m: &M) -> usize { let mut n = 0; for t in TYPE_NAMES.iter() { n += m.verif_alloc(t); } n }

fn cond_event(m: &M, k: u32, holds: bool, capped: bool) {
    let obs = OBS.with(|o| o.get());
    let mut out = String::new();
    write!(out, "{{\"e\":\"cond\",\"iter\":{},\"holds\":{},\"capped\":{}", k, holds, capped).unwrap();
    if obs >= 2 { out.push_str(",\"public\":"); dump_public(m, &mut out); }
    if obs >= 3 { out.push_str(",\"private\":"); m.verif_dump_private(&mut out); }
    if obs >= 4 { out.push_str(",\"sweep\":"); sweep_json(m, &mut out); }
    out.push('}');
    emit(&out);
}

fn run_close(m: &mut M, conds: &[Cond], all: bool, cap: u32) -> (bool, u32, bool) {
    let it = Cell::new(0u32);
    let capped = Cell::new(false);
    let ret = m.close_until(|m: &M| {
        let k = it.get();
        it.set(k + 1);
        let holds = if conds.is_empty() { false } else if all { conds.iter().all(|c| eval_cond(m, c)) } else { conds.iter().any(|c| eval_cond(m, c)) };
        // the cap bounds iterations and model growth (non-terminating theories)
        let cp = k >= cap || alloc_total(m) > 160;
        if cp && !holds { capped.set(true); }
        cond_event(m, k, holds, cp && !holds);
        holds || cp
    });
    (ret, it.get(), capped.get())
}

fn main() {
    let args: Vec<String> = std::env::args().collect();
    let script = std::fs::read_to_string(&args[1]).expect("script");
    std::panic::set_hook(Box::new(|info| {
        let msg = format!("{}", info);
        PANIC_MSG.with(|p| *p.borrow_mut() = msg);
    }));
    let mut m = M::new();
    let mut st = St { regs: BTreeMap::new() };
    let mut dead = false; // after a panic the history is abandoned until the next reset
    for (lineno, line) in script.lines().enumerate() {
        let toks: Vec<&str> = line.split_whitespace().collect();
        if toks.is_empty() { continue; }
        let op = toks[0];
        if op == "reset" {
            m = M::new(); st.regs.clear(); dead = false;
            emit(&format!("{{\"e\":\"reset\",\"i\":{},\"tag\":{}}}", lineno, jstr(toks.get(1).copied().unwrap_or(""))));
            flush();
            continue;
        }
        if op == "obs" { OBS.with(|o| o.set(toks[1].parse().unwrap())); continue; }
        if dead { continue; }
        if op == "close" || op == "cu" { emit(&format!("{{\"e\":\"begin\",\"i\":{}}}", lineno)); flush(); }
        let res = std::panic::catch_unwind(std::panic::AssertUnwindSafe(|| -> String {
            let mut out = String::new();
            match op {
                "new" => {
                    let parent = if toks.len() > 3 { resolve(&st, &toks[3..4]).map(|a| a[0]) } else { None };
                    let id = do_new(&mut m, toks[1], parent);
                    st.regs.insert(toks[2].to_string(), (toks[1].to_string(), id));
                    write!(out, "\"ty\":{},\"ret\":{}", jstr(toks[1]), id).unwrap();
                }
                "newenum" => {
                    let n = toks.len();
                    match resolve(&st, &toks[3..n - 1]) {
                        None => { out.push_str("\"skipped\":true"); }
                        Some(a) => {
                            let id = do_newenum(&mut m, toks[1], toks[2], &a);
                            st.regs.insert(toks[n - 1].to_string(), (toks[1].to_string(), id));
                            write!(out, "\"ty\":{},\"ctor\":{},\"args\":", jstr(toks[1]), jstr(toks[2])).unwrap(); vec_json(&a, &mut out);
                            write!(out, ",\"ret\":{}", id).unwrap();
                        }
                    }
                }
                "ins" => match resolve(&st, &toks[2..]) {
                    None => { out.push_str("\"skipped\":true"); }
                    Some(a) => { do_ins(&mut m, toks[1], &a); write!(out, "\"rel\":{},\"args\":", jstr(toks[1])).unwrap(); vec_json(&a, &mut out); }
                },
                "def" => {
                    let n = toks.len();
                    match resolve(&st, &toks[2..n - 1]) {
                        None => { out.push_str("\"skipped\":true"); }
                        Some(a) => {
                            let id = do_def(&mut m, toks[1], &a);
                            st.regs.insert(toks[n - 1].to_string(), (String::new(), id));
                            write!(out, "\"rel\":{},\"args\":", jstr(toks[1])).unwrap(); vec_json(&a, &mut out);
                            write!(out, ",\"ret\":{}", id).unwrap();
                        }
                    }
                }
                "eq" => match resolve(&st, &toks[2..4]) {
                    None => { out.push_str("\"skipped\":true"); }
                    Some(a) => { do_equate(&mut m, toks[1], a[0], a[1]); write!(out, "\"ty\":{},\"args\":", jstr(toks[1])).unwrap(); vec_json(&a, &mut out); }
                },
                "close" => {
                    let cap: u32 = toks.get(1).map(|s| s.parse().unwrap()).unwrap_or(30);
                    let (ret, iters, capped) = run_close(&mut m, &[], false, cap);
                    write!(out, "\"ret\":{},\"iters\":{},\"capped\":{}", ret, iters, capped).unwrap();
                }
                "cu" => {
                    // cu <cap> <any|all> cond | cond ...
                    let cap: u32 = toks[1].parse().unwrap();
                    let all = toks[2] == "all";
                    match parse_conds(&st, &toks[3..]) {
                        None => { out.push_str("\"skipped\":true"); }
                        Some(conds) => {
                            let (ret, iters, capped) = run_close(&mut m, &conds, all, cap);
                            let after = if conds.is_empty() { false } else if all { conds.iter().all(|c| eval_cond(&m, c)) } else { conds.iter().any(|c| eval_cond(&m, c)) };
                            write!(out, "\"ret\":{},\"iters\":{},\"capped\":{},\"cond_after\":{}", ret, iters, capped, after).unwrap();
                        }
                    }
                }
                "pq" => match resolve(&st, &toks[2..]) {
                    None => { out.push_str("\"skipped\":true"); }
                    Some(a) => { let r = do_pred(&m, toks[1], &a); write!(out, "\"rel\":{},\"args\":", jstr(toks[1])).unwrap(); vec_json(&a, &mut out); write!(out, ",\"ret\":{}", r).unwrap(); }
                },
                "ev" => match resolve(&st, &toks[2..]) {
                    None => { out.push_str("\"skipped\":true"); }
                    Some(a) => { let r = do_eval(&m, toks[1], &a); write!(out, "\"rel\":{},\"args\":", jstr(toks[1])).unwrap(); vec_json(&a, &mut out);
                        match r { Some(x) => write!(out, ",\"ret\":{}", x).unwrap(), None => out.push_str(",\"ret\":null") } }
                },
                "root" => match resolve(&st, &toks[2..3]) {
                    None => { out.push_str("\"skipped\":true"); }
                    Some(a) => { let r = do_root(&m, toks[1], a[0]); let rr = do_root(&m, toks[1], r); write!(out, "\"ty\":{},\"args\":[{}],\"ret\":{},\"ret2\":{}", jstr(toks[1]), a[0], r, rr).unwrap(); }
                },
                "areeq" => match resolve(&st, &toks[2..4]) {
                    None => { out.push_str("\"skipped\":true"); }
                    Some(a) => { let r = do_areeq(&m, toks[1], a[0], a[1]); write!(out, "\"ty\":{},\"args\":[{},{}],\"ret\":{}", jstr(toks[1]), a[0], a[1], r).unwrap(); }
                },
                "iter" => { write!(out, "\"rel\":{},\"ret\":[", jstr(toks[1])).unwrap(); for (j, row) in do_iter(&m, toks[1]).iter().enumerate() { if j > 0 { out.push(','); } vec_json(row, &mut out); } out.push(']'); }
                "itertype" => { write!(out, "\"ty\":{},\"ret\":", jstr(toks[1])).unwrap(); vec_json(&do_itertype(&m, toks[1]), &mut out); }
                "case" | "cases" => match resolve(&st, &toks[2..3]) {
                    None => { out.push_str("\"skipped\":true"); }
                    Some(a) => { write!(out, "\"ty\":{},\"args\":[{}],\"ret\":{}", jstr(toks[1]), a[0], case_json(toks[1], &m, a[0], op == "cases")).unwrap(); }
                },
                "caseid" | "casesid" => { let id: u32 = toks[2].parse().unwrap(); write!(out, "\"ty\":{},\"args\":[{}],\"ret\":{}", jstr(toks[1]), id, case_json(toks[1], &m, id, op == "casesid")).unwrap(); }
                "pqid" => { let a: Vec<u32> = toks[2..].iter().map(|s| s.parse().unwrap()).collect(); let r = do_pred(&m, toks[1], &a); write!(out, "\"rel\":{},\"args\":", jstr(toks[1])).unwrap(); vec_json(&a, &mut out); write!(out, ",\"ret\":{}", r).unwrap(); }
                "evid" => { let a: Vec<u32> = toks[2..].iter().map(|s| s.parse().unwrap()).collect(); let r = do_eval(&m, toks[1], &a); write!(out, "\"rel\":{},\"args\":", jstr(toks[1])).unwrap(); vec_json(&a, &mut out);
                        match r { Some(x) => write!(out, ",\"ret\":{}", x).unwrap(), None => out.push_str(",\"ret\":null") } }
                "dump" => { out.push_str("\"public\":"); dump_public(&m, &mut out); }
                "probe" => { out.push_str("\"public\":"); dump_public(&m, &mut out); out.push_str(",\"private\":"); m.verif_dump_private(&mut out); }
                "sweep" => { out.push_str("\"public\":"); dump_public(&m, &mut out); out.push_str(",\"private\":"); m.verif_dump_private(&mut out); out.push_str(",\"sweep\":"); sweep_json(&m, &mut out); }
                "regs" => { out.push_str("\"regs\":{"); for (j, (k, (_, id))) in st.regs.iter().enumerate() { if j > 0 { out.push(','); } write!(out, "{}:{}", jstr(k), id).unwrap(); } out.push('}'); }
                _ => panic!("unknown op {}", op),
            }
            out
        }));
        match res {
            Ok(body) => { emit(&format!("{{\"e\":\"op\",\"i\":{},\"op\":{}{}{}}}", lineno, jstr(op), if body.is_empty() { "" } else { "," }, body)); }
            Err(_) => {
                let msg = PANIC_MSG.with(|p| p.borrow().clone());
                emit(&format!("{{\"e\":\"op\",\"i\":{},\"op\":{},\"panic\":{}}}", lineno, jstr(op), jstr(&msg)));
                dead = true;
            }
        }
    }
    emit("{\"e\":\"end\"}");
    flush();
}
'''


# ---------------------------------------------------------------------------------------------
# compile + run


def compiler_id():
    st = _build._read_stamp()
    return st.get("compiler", "?") + st.get("runtime", "?")


def compile_theory(th, hooks=False, mode="module", rtlib=None, rustc=("rustc",), extra_rustc=(), tag="plain", keep=True):
    """Compile a theory (AST dict with 'name', or dict with 'text') to a driver binary.
    Returns dict(ok, dir, driver, stage, stderr, ...). Cached by content."""
    text = th.get("text") or emit(th)
    name = th["name"]
    key = sha(compiler_id(), text, name, str(hooks), mode, tag, " ".join(extra_rustc), DRIVER_MAIN)[:24]
    d = os.path.join(CACHE, key[:2], key)
    os.makedirs(os.path.join(CACHE, key[:2]), exist_ok=True)
    import fcntl
    with open(d + ".lock", "w") as lockf:
        # concurrent checks share the cache: serialise work on one key
        fcntl.flock(lockf, fcntl.LOCK_EX)
        return _compile_theory_locked(th, text, name, key, d, hooks, mode, rtlib, rustc, extra_rustc)


def _compile_theory_locked(th, text, name, key, d, hooks, mode, rtlib, rustc, extra_rustc):
    meta_p = os.path.join(d, "meta.json")
    if os.path.exists(meta_p):
        try:
            with open(meta_p) as f:
                meta = json.load(f)
            if not meta.get("ok") or os.path.exists(meta["driver"]):
                return meta
        except Exception:
            pass
    if os.path.isdir(d):
        shutil.rmtree(d)
    os.makedirs(os.path.join(d, "src"))
    os.makedirs(os.path.join(d, "out"))
    with open(os.path.join(d, "src", name + ".eql"), "w") as f:
        f.write(text)
    env = env_with({"EQLOG_VERIF_HOOKS": "1"} if hooks else {})
    env.pop("EQLOG_VERIF_HOOKS", None) if not hooks else None
    rtlib = rtlib or _build.rtlib_path()
    cmd = [EQLOG_BIN, "src", "out"]
    if mode == "component":
        os.makedirs(os.path.join(d, "comp"))
        cmd += ["--build-type", "component", "--component-out-dir", "comp", "--runtime-rlib-path", rtlib,
                "--rustc-path", th.get("rustc_path", "rustc"), "--opt-level", "0"]
    rc, out, err = run(cmd, cwd=d, env=env, timeout=600)
    meta = {"ok": False, "dir": d, "name": name, "mode": mode, "hooks": hooks, "eqlog_rc": rc, "stage": "eqlog", "stderr": err[-4000:], "stdout": out[-2000:]}
    if rc != 0:
        with open(meta_p, "w") as f:
            json.dump(meta, f)
        return meta
    mod_p = os.path.join(d, "out", name + ".eql.rs")
    with open(mod_p) as f:
        module_text = f.read()
    sig = Sig(th) if "rules" in th or "types" in th else None
    if sig is None:
        raise HarnessError("compile_theory needs an AST with signature")
    try:
        drv = gen_driver(sig, name, module_text)
    except HarnessError as e:
        meta.update(stage="probe", stderr=str(e))
        with open(meta_p, "w") as f:
            json.dump(meta, f)
        return meta
    with open(os.path.join(d, "out", "driver.rs"), "w") as f:
        f.write(drv)
    driver = os.path.join(d, "driver")
    cmd = list(rustc) + [os.path.join("out", "driver.rs"), "--edition=2021", "-C", "opt-level=0", "-C", "debug-assertions=on",
                         "-C", "debuginfo=0", "-C", "codegen-units=1", "-A", "warnings", "--extern", "eqlog_runtime=" + rtlib, "-L", os.path.dirname(rtlib), "-o", driver] + list(extra_rustc)
    if mode == "component":
        comp = os.path.join(d, "comp", name + ".eql")
        libs = sorted(x for x in os.listdir(comp) if x.endswith(".rlib"))
        cmd += ["-L", "native=" + comp]
        for l in libs:
            cmd += ["-l", "static:+verbatim=" + l]
    rc, out, err = run(cmd, cwd=d, env=env_with(), timeout=900)
    meta.update(stage="rustc", rustc_rc=rc, stderr=err[-6000:])
    if rc == 0:
        meta.update(ok=True, driver=driver, stage="done", stderr="")
    with open(meta_p, "w") as f:
        json.dump(meta, f)
    return meta


def script_text(histories):
    """histories: list of (tag, obs_level, ops). Returns the script text."""
    lines = []
    for tag, obs, ops in histories:
        lines.append("reset %s" % tag)
        lines.append("obs %d" % obs)
        for op in ops:
            lines.append(" ".join(str(x) for x in op))
    return "\n".join(lines) + "\n"


def run_script(meta, histories, timeout=120, wrapper=(), env=None, script_name="script.txt"):
    """Returns (status, list of per-history event lists). status: ok | timeout | crash:<rc>"""
    d = meta["dir"]
    sp = os.path.join(d, script_name)
    with open(sp, "w") as f:
        f.write(script_text(histories))
    rc, out, err = run(list(wrapper) + [meta["driver"], sp], cwd=d, env=env if env is not None else env_with(), timeout=timeout)
    status = "ok" if rc == 0 else ("timeout" if rc is None else "crash:%s" % rc)
    hists = []
    cur = None
    for line in out.splitlines():
        if not line.startswith("{"):
            continue
        try:
            ev = json.loads(line)
        except ValueError:
            continue
        if ev.get("e") == "reset":
            cur = {"tag": ev.get("tag"), "events": []}
            hists.append(cur)
        elif ev.get("e") == "end":
            pass
        elif cur is not None:
            cur["events"].append(ev)
    return status, hists, out, err
