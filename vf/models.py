"""C17: member relations of `model` declarations are inherited along morphisms like ordinary facts.

A model theory is presented to the machinery twice:
  * `th["text"]`: the program in eqlog's model syntax (what the real compiler gets);
  * the *flat* AST in the same dict (types incl. the model type `Ma` and its morphism type `MaMor`,
    member relations with the model as their first column, `ma_mor_dom` / `ma_mor_cod` as
    ordinary functions, rules over them).  This is exactly the shape of the generated API
    (`insert_pa(m, x)`, `ma_mor_dom(f)`, ...), so the generic driver, dump and canon work as is.
The reference semantics is the flat theory plus one explicit *inheritance rule* per member
relation:   p(a, xs) & dom(f) = a & cod(f) = b  =>  p(b, xs).

Oracles, on the real closed model:
  (I)  inheritance closure checked directly on the dump (never downgraded);
  (S)  closedness under all rules incl. the inheritance rules (ref.satisfied);
  (F)  equality with the free model (reference chase) up to label-fixing isomorphism;
  (M)  metamorphic: histories that differ only in *when* morphisms, their dom/cod, the facts and
       the closes come must close to the same model;
  (N)  mechanism monitor on private dumps at every condition evaluation: a row may enter the old
       partition of a member relation's `_all` copy only if it was in the new or old partition at
       the previous observation point ("never old without having been new").
"""
import json
import random

from . import driver, gen, ref
from .checks_model import _cnt, _empty_out, _inc, _run, _vio, aggregate
from .modelrun import labels_of, model_from_dump, pmap, reference_input
from .theory import Sig, app, atom_terms, term_str, var
from .util import Result, seed, sha

MODEL = "Ma"
MOR = "MaMor"
DOM = "ma_mor_dom"
COD = "ma_mor_cod"
LET = "abcdefgh"


# ---------------------------------------------------------------------------------------------
# rendering a flat AST in model syntax


class NotRenderable(Exception):
    pass


MEMBER = "ma_member_sa"
APP = "sa_mor_app"
MTYPE = "Sa"


def r_term(t, mem):
    if t["k"] == "var":
        return t["n"]
    if t["k"] == "wild":
        return "_"
    f = t["f"]
    args = t["args"]
    if f == APP:
        return "%s@(%s)" % (r_term(args[0], mem), r_term(args[1], mem))
    if f == DOM:
        return "dom(%s)" % r_term(args[0], mem)
    if f == COD:
        return "cod(%s)" % r_term(args[0], mem)
    if f in mem:
        if args[0]["k"] == "wild":
            raise NotRenderable("wildcard as model of a member function")
        return "%s.%s(%s)" % (r_term(args[0], mem), f, ", ".join(r_term(a, mem) for a in args[1:]))
    return "%s(%s)" % (f, ", ".join(r_term(a, mem) for a in args))


def r_type(ty):
    return "Mor(%s)" % MODEL if ty == MOR else ty


def r_atom(a, mem):
    k = a["k"]
    if k == "pred" and a["p"] == MEMBER:
        return "%s: %s.%s" % (r_term(a["args"][1], mem), r_term(a["args"][0], mem), MTYPE)
    if k == "pred":
        if a["p"] in mem:
            if a["args"][0]["k"] == "wild":
                raise NotRenderable("wildcard as model of a member predicate")
            return "%s.%s(%s)" % (r_term(a["args"][0], mem), a["p"], ", ".join(r_term(t, mem) for t in a["args"][1:]))
        return "%s(%s)" % (a["p"], ", ".join(r_term(t, mem) for t in a["args"]))
    if k == "eq":
        return "%s = %s" % (r_term(a["l"], mem), r_term(a["r"], mem))
    if k == "def":
        if a.get("v"):
            return "%s := %s!" % (a["v"], r_term(a["t"], mem))
        return "%s!" % r_term(a["t"], mem)
    if k == "type":
        return "%s: %s" % (a["v"], r_type(a["ty"]))
    raise ValueError(k)


def r_stmts(stmts, ind, mem):
    out = []
    pad = "    " * ind
    for s in stmts:
        if s["k"] in ("if", "then"):
            out.append("%s%s %s;" % (pad, s["k"], r_atom(s["atom"], mem)))
        elif s["k"] == "branch":
            for i, b in enumerate(s["blocks"]):
                out.append(pad + ("branch {" if i == 0 else "} along {"))
                out.extend(r_stmts(b, ind + 1, mem))
            out.append(pad + "}")
        else:
            raise NotRenderable(s["k"])
    return out


def render(th):
    mem = set(th["member"])
    out = []
    for t in th["types"]:
        if t not in (MODEL, MOR, MTYPE):
            out.append("type %s;" % t)
    out.append("model %s {" % MODEL)
    if th.get("member_types"):
        out.append("    type %s;" % MTYPE)
    for p in th["preds"]:
        if p["name"] in mem:
            out.append("    pred %s(%s);" % (p["name"], ", ".join("%s: %s" % (LET[i], r_type(t)) for i, t in enumerate(p["args"][1:]))))
    for f in th["funcs"]:
        if f["name"] in mem:
            out.append("    func %s(%s) -> %s;" % (f["name"], ", ".join("%s: %s" % (LET[i], r_type(t)) for i, t in enumerate(f["args"][1:])), r_type(f["res"])))
    out.append("}")
    for p in th["preds"]:
        if p["name"] not in mem and p["name"] != MEMBER:
            out.append("pred %s(%s);" % (p["name"], ", ".join(r_type(t) for t in p["args"])))
    for f in th["funcs"]:
        if f["name"] not in mem and f["name"] not in (DOM, COD, APP):
            out.append("func %s(%s) -> %s;" % (f["name"], ", ".join(r_type(t) for t in f["args"]), r_type(f["res"])))
    for r in th["rules"]:
        out.append("rule %s {" % r["name"])
        out.extend(r_stmts(r["body"], 1, mem))
        out.append("}")
    return "\n".join(out) + "\n"


# ---------------------------------------------------------------------------------------------
# generator


def _img_premises(cols, xs, start):
    """For member-typed columns: premises `sa_mor_app(mf, x) = y`; returns (premises, image terms)."""
    prem, img = [], []
    for i, (ty, x) in enumerate(zip(cols, xs)):
        if ty == MTYPE:
            y = var("y%s" % LET[start + i])
            prem.append({"k": "if", "atom": {"k": "eq", "l": app(APP, var("mf"), x), "r": y}})
            img.append(y)
        else:
            img.append(x)
    return prem, img


def inheritance_rules_member_types(th):
    rules = []
    mem = set(th["member"])
    sig_cod = [{"k": "if", "atom": {"k": "eq", "l": app(DOM, var("mf")), "r": var("ma")}},
               {"k": "if", "atom": {"k": "eq", "l": app(COD, var("mf")), "r": var("mb")}}]
    for p in th["preds"]:
        if p["name"] in mem:
            cols = p["args"][1:]
            xs = [var("x%s" % LET[i]) for i in range(len(cols))]
            prem, img = _img_premises(cols, xs, 0)
            rules.append({"name": "inherit_" + p["name"], "body": [{"k": "if", "atom": {"k": "pred", "p": p["name"], "args": [var("ma")] + xs}}] + sig_cod + prem +
                          [{"k": "then", "atom": {"k": "pred", "p": p["name"], "args": [var("mb")] + img}}]})
    for f in th["funcs"]:
        if f["name"] in mem:
            cols = f["args"][1:] + [f["res"]]
            xs = [var("x%s" % LET[i]) for i in range(len(cols))]
            prem, img = _img_premises(cols, xs, 0)
            rules.append({"name": "inherit_" + f["name"], "body": [{"k": "if", "atom": {"k": "eq", "l": app(f["name"], var("ma"), *xs[:-1]), "r": xs[-1]}}] + sig_cod + prem +
                          [{"k": "then", "atom": {"k": "eq", "l": app(f["name"], var("mb"), *img[:-1]), "r": img[-1]}}]})
            if f["res"] == MTYPE:
                # typing: the value of a member function is a member of the same model
                rules.append({"name": "typing_" + f["name"], "body": [{"k": "if", "atom": {"k": "eq", "l": app(f["name"], var("ma"), *xs[:-1]), "r": xs[-1]}},
                                                                       {"k": "then", "atom": {"k": "pred", "p": MEMBER, "args": [var("ma"), xs[-1]]}}]})
    # typing: the image of an element under a morphism is a member of the morphism's codomain
    rules.append({"name": "typing_mor_app", "body": [{"k": "if", "atom": {"k": "eq", "l": app(APP, var("mf"), var("x")), "r": var("y")}},
                                                      {"k": "if", "atom": {"k": "eq", "l": app(COD, var("mf")), "r": var("mb")}},
                                                      {"k": "then", "atom": {"k": "pred", "p": MEMBER, "args": [var("mb"), var("y")]}}]})
    return rules


def inheritance_rules(th):
    if th.get("member_types"):
        return inheritance_rules_member_types(th)
    rules = []
    mem = set(th["member"])
    for p in th["preds"]:
        if p["name"] in mem:
            xs = [var("x%s" % LET[i]) for i in range(len(p["args"]) - 1)]
            rules.append({"name": "inherit_" + p["name"], "body": [
                {"k": "if", "atom": {"k": "pred", "p": p["name"], "args": [var("ma")] + xs}},
                {"k": "if", "atom": {"k": "eq", "l": app(DOM, var("mf")), "r": var("ma")}},
                {"k": "if", "atom": {"k": "eq", "l": app(COD, var("mf")), "r": var("mb")}},
                {"k": "then", "atom": {"k": "pred", "p": p["name"], "args": [var("mb")] + xs}}]})
    for f in th["funcs"]:
        if f["name"] in mem:
            xs = [var("x%s" % LET[i]) for i in range(len(f["args"]) - 1)]
            rules.append({"name": "inherit_" + f["name"], "body": [
                {"k": "if", "atom": {"k": "eq", "l": app(f["name"], var("ma"), *xs), "r": var("my")}},
                {"k": "if", "atom": {"k": "eq", "l": app(DOM, var("mf")), "r": var("ma")}},
                {"k": "if", "atom": {"k": "eq", "l": app(COD, var("mf")), "r": var("mb")}},
                {"k": "then", "atom": {"k": "eq", "l": app(f["name"], var("mb"), *xs), "r": var("my")}}]})
    return rules


def reference_theory(th):
    r = dict(th)
    r["rules"] = list(th["rules"]) + inheritance_rules(th)
    r.pop("text", None)
    return r


def _rule_ok(rule, mem):
    """Renderable, and no rule makes a morphism's dom or cod *defined* out of nothing in a way that
    could close a cycle: dom/cod may be read freely but are only asserted on existing objects."""
    try:
        r_stmts(rule["body"], 1, mem)
    except NotRenderable:
        return False

    def walk(stmts):
        for s in stmts:
            if s["k"] in ("if", "then") and any(_wild_under_domcod(t) for t in atom_terms(s["atom"])):
                return False  # `dom(_)` has no determined type
            if s["k"] == "then":
                a = s["atom"]
                if a["k"] == "def":
                    return False  # keep the theories surjective apart from the fixed templates below
                for t in atom_terms(a):
                    if _mentions(t, (DOM, COD)):
                        return False
            elif s["k"] == "branch":
                for b in s["blocks"]:
                    if not walk(b):
                        return False
            elif s["k"] == "match":
                return False
        return True
    return walk(rule["body"])


def _type_model_vars(rule, mem):
    """`z.pa(x)` alone does not determine the type of z: prepend `if z: Ma;` for every variable that
    occurs as the model of a member relation (harmless where the type is known anyway)."""
    vs = []

    def tt(t):
        if t["k"] == "app":
            if t["f"] in mem and t["args"] and t["args"][0]["k"] == "var":
                vs.append(t["args"][0]["n"])
            for a in t["args"]:
                tt(a)

    def walk(stmts):
        for s in stmts:
            if s["k"] in ("if", "then"):
                a = s["atom"]
                if a["k"] == "pred" and a["p"] in mem and a["args"][0]["k"] == "var":
                    vs.append(a["args"][0]["n"])
                for t in atom_terms(a):
                    tt(t)
            elif s["k"] == "branch":
                for b in s["blocks"]:
                    walk(b)
    walk(rule["body"])
    # only variables bound at top level can be typed at the top of the rule
    top = []
    from .theory import atom_vars
    for s in rule["body"]:
        if s["k"] == "if":
            atom_vars(s["atom"], top)
    pre = []
    for v in sorted(set(vs)):
        if v in top:
            pre.append({"k": "if", "atom": {"k": "type", "v": v, "ty": MODEL}})
    rule["body"] = pre + rule["body"]
    return all(v in top for v in set(vs))


def _wild_under_domcod(t):
    if t["k"] == "app":
        if t["f"] in (DOM, COD) and t["args"][0]["k"] == "wild":
            return True
        return any(_wild_under_domcod(a) for a in t["args"])
    return False


def _mentions(t, fs):
    if t["k"] == "app":
        return t["f"] in fs or any(_mentions(a, fs) for a in t["args"])
    return False


def gen_model_theory(s, name="mt"):
    rng = random.Random("model-theory-%d" % s)
    types = ["Ta"] + (["Tb"] if rng.random() < 0.4 else [])
    gtypes = list(types)
    all_types = types + [MODEL, MOR]
    preds, funcs, member = [], [], []
    # member signature
    for i in range(rng.choice((1, 2, 2, 3))):
        ar = rng.choice((0, 1, 1, 1, 2))
        n = "p" + LET[i]
        preds.append({"name": n, "args": [MODEL] + [rng.choice(gtypes) for _ in range(ar)]})
        member.append(n)
    # no member functions here: a member function whose result type is a global type is rejected by
    # the compiler whenever it is applied ("conflicting types: Ta / x.Ta"); member functions need
    # member types, which the member-type templates below cover
    # global signature
    for i in range(rng.choice((1, 2, 2, 3))):
        ar = rng.choice((0, 1, 1, 2, 2))
        preds.append({"name": "g" + LET[i], "args": [rng.choice(gtypes + [MODEL]) for _ in range(ar)]})
    nconst = rng.choice((0, 1, 2, 2, 3))
    for i in range(nconst):
        funcs.append({"name": "c" + LET[i], "args": [], "res": MODEL})
    if rng.random() < 0.5:
        funcs.append({"name": "cm", "args": [], "res": MOR})
    if rng.random() < 0.3:
        funcs.append({"name": "hk", "args": [rng.choice(gtypes)], "res": rng.choice(gtypes)})
    funcs.append({"name": DOM, "args": [MOR], "res": MODEL})
    funcs.append({"name": COD, "args": [MOR], "res": MODEL})
    th = {"name": name, "types": all_types, "enums": [], "preds": preds, "funcs": funcs, "rules": [], "member": member, "seed": s}
    sig = Sig(th)
    mem = set(member)
    nrules = rng.choice((1, 2, 2, 3, 3, 4))
    tries = 0
    while len(th["rules"]) < nrules and tries < 60:
        tries += 1
        r = gen.gen_rule(rng, sig, rng.choice(("surj", "surj", "diag", "eqprem")), len(th["rules"]))
        if r is None or not _rule_ok(r, mem):
            continue
        # a rule should involve a member relation or the morphism structure more often than not
        txt = json.dumps(r)
        if not any(('"%s"' % m) in txt for m in member) and rng.random() < 0.7:
            continue
        if not _type_model_vars(r, mem):
            continue
        th["rules"].append(r)
    # fixed templates that tie morphisms to constants (as subset_rules.eql does) and push member
    # facts of named models into global predicates
    consts = [f["name"] for f in funcs if f["res"] == MODEL and not f["args"]]
    if "cm" in sig.funcs and len(consts) >= 2 and rng.random() < 0.8:
        a, b = consts[0], consts[1]
        th["rules"].append({"name": "cm_dom", "body": [
            {"k": "if", "atom": {"k": "eq", "l": var("x"), "r": app(a)}}, {"k": "if", "atom": {"k": "eq", "l": var("f"), "r": app("cm")}},
            {"k": "then", "atom": {"k": "eq", "l": app(DOM, var("f")), "r": var("x")}}]})
        th["rules"].append({"name": "cm_cod", "body": [
            {"k": "if", "atom": {"k": "eq", "l": var("y"), "r": app(b)}}, {"k": "if", "atom": {"k": "eq", "l": var("f"), "r": app("cm")}},
            {"k": "then", "atom": {"k": "eq", "l": app(COD, var("f")), "r": var("y")}}]})
    p0 = preds[0]
    if len(consts) >= 2 and len(p0["args"]) >= 2 and rng.random() < 0.7:
        xs = [var("x%s" % LET[i]) for i in range(len(p0["args"]) - 1)]
        gname = "both"
        th["preds"].append({"name": gname, "args": list(p0["args"][1:])})
        th["rules"].append({"name": "in_both", "body": [
            {"k": "if", "atom": {"k": "pred", "p": p0["name"], "args": [app(consts[0])] + xs}},
            {"k": "if", "atom": {"k": "pred", "p": p0["name"], "args": [app(consts[1])] + xs}},
            {"k": "then", "atom": {"k": "pred", "p": gname, "args": xs}}]})
    if not th["rules"]:
        return None
    th["text"] = render(th)
    return th


# ---------------------------------------------------------------------------------------------
# theories with a member type: member relations over `Sa`, morphism application `f@(x)`; rules are
# drawn from a pool of hand-written, well-typed flat rules (a random rule over the flat signature
# would mix elements of different models, which the compiler rejects as a type conflict)


def _if(a):
    return {"k": "if", "atom": a}


def _then(a):
    return {"k": "then", "atom": a}


def _p(p, *args):
    return {"k": "pred", "p": p, "args": list(args)}


def _eq(l, r):
    return {"k": "eq", "l": l, "r": r}


def _ty(v, ty):
    return {"k": "type", "v": v, "ty": ty}


def member_type_rule_pool(has_fs, has_pt):
    m, n, x, y, t, f = var("m"), var("n"), var("x"), var("y"), var("t"), var("f")
    pool = {
        "pr_to_ps": [_if(_ty("m", MODEL)), _if(_p("pr", m, x, {"k": "wild"})), _then(_p("ps", m, x))],
        "ps_pr_to_global": [_if(_ty("m", MODEL)), _if(_p("ps", m, x)), _if(_p("pr", m, x, t)), _then(_p("gmt", m, t))],
        "same_tag_same_element": [_if(_ty("m", MODEL)), _if(_p("pr", m, x, t)), _if(_p("pr", m, y, t)), _then(_eq(x, y))],
        "morphisms_total": [_if(_ty("m", MODEL)), _if(_p(MEMBER, m, x)), _if(_eq(app(DOM, f), m)), _if({"k": "def", "t": app(COD, f)}), _then({"k": "def", "t": app(APP, f, x)})],
        "marked_models": [_if(_p("gm", m)), _if(_p("ps", m, x)), _if(_p("pr", m, x, t)), _then(_p("ga", t))],
        "global_to_member": [_if(_ty("m", MODEL)), _if(_p("ga", t)), _if(_p("ps", m, x)), _then(_p("pr", m, x, t))],
        "image_tagged": [_if(_eq(app(DOM, f), m)), _if(_eq(app(COD, f), n)), _if(_p("ps", m, x)), _if(_eq(y, app(APP, f, x))), _if(_p("pr", n, y, t)), _then(_p("gmt", m, t))],
    }
    if has_fs:
        pool["ps_closed_under_fs"] = [_if(_ty("m", MODEL)), _if(_p("ps", m, x)), _if(_eq(y, app("fs", m, x))), _then(_p("ps", m, y))]
        pool["fs_fixes_tagged"] = [_if(_ty("m", MODEL)), _if(_p("pr", m, x, t)), _if(_p("ga", t)), _if(_eq(y, app("fs", m, x))), _then(_eq(x, y))]
    if has_pt:
        pool["pt_in_ps"] = [_if(_ty("m", MODEL)), _if(_eq(x, app("pt", m))), _then(_p("ps", m, x))]
        pool["pt_total"] = [_if(_ty("m", MODEL)), _then({"k": "def", "t": app("pt", m)})]
    return pool


def gen_member_type_theory(s, name="mt"):
    rng = random.Random("member-type-theory-%d" % s)
    has_fs = rng.random() < 0.6
    has_pt = rng.random() < 0.4
    preds = [{"name": "ps", "args": [MODEL, MTYPE]}, {"name": "pr", "args": [MODEL, MTYPE, "Ta"]},
             {"name": MEMBER, "args": [MODEL, MTYPE]},
             {"name": "ga", "args": ["Ta"]}, {"name": "gm", "args": [MODEL]}, {"name": "gmt", "args": [MODEL, "Ta"]}]
    funcs = []
    member = ["ps", "pr"]
    if has_fs:
        funcs.append({"name": "fs", "args": [MODEL, MTYPE], "res": MTYPE})
        member.append("fs")
    if has_pt:
        funcs.append({"name": "pt", "args": [MODEL], "res": MTYPE})
        member.append("pt")
    funcs.append({"name": APP, "args": [MOR, MTYPE], "res": MTYPE})
    funcs.append({"name": DOM, "args": [MOR], "res": MODEL})
    funcs.append({"name": COD, "args": [MOR], "res": MODEL})
    pool = member_type_rule_pool(has_fs, has_pt)
    names = sorted(pool)
    k = rng.randint(2, min(5, len(names)))
    chosen = rng.sample(names, k)
    if "morphisms_total" not in chosen and rng.random() < 0.6:
        chosen.append("morphisms_total")
    rules = [{"name": "r_" + n, "body": pool[n]} for n in sorted(chosen)]
    th = {"name": name, "types": ["Ta", MODEL, MOR, MTYPE], "enums": [], "preds": preds, "funcs": funcs, "rules": rules,
          "member": member, "member_types": {MTYPE: [MODEL, MEMBER]}, "seed": s}
    th = json.loads(json.dumps(th))
    th["text"] = render(th)
    return th


def gen_member_type_facts(rng, sig, th):
    create = []
    labels = {ty: [] for ty in sig.all_types}
    for i in range(rng.randint(1, 3)):
        create.append(["new", "Ta", "Ta%d" % i])
        labels["Ta"].append("Ta%d" % i)
    nobj = rng.randint(2, 4)
    members = {}
    for i in range(nobj):
        lab = "%s%d" % (MODEL, i)
        create.append(["new", MODEL, lab])
        labels[MODEL].append(lab)
        members[lab] = []
        for j in range(rng.choice((0, 1, 2, 2, 3))):
            sl = "%s%d%s" % (MTYPE, i, LET[j])
            create.append(["new", MTYPE, sl, lab])
            labels[MTYPE].append(sl)
            members[lab].append(sl)
    morph = []
    for i in range(rng.randint(1, 3)):
        lab = "%s%d" % (MOR, i)
        create.append(["new", MOR, lab])
        a, b = sorted(rng.sample(range(nobj), 2))
        la, lb = labels[MODEL][a], labels[MODEL][b]
        r = rng.random()
        if r < 0.85:
            morph.append(["ins", DOM, lab, la])
            morph.append(["ins", COD, lab, lb])
            # some images given by the caller (only between members of the right models); every
            # other morphism is deliberately not injective: several elements share one image
            collapse = rng.choice(members[lb]) if members[lb] and rng.random() < 0.5 else None
            for sx in members[la]:
                if collapse is not None and rng.random() < 0.85:
                    morph.append(["ins", APP, lab, sx, collapse])
                elif members[lb] and rng.random() < 0.4:
                    morph.append(["ins", APP, lab, sx, rng.choice(members[lb])])
        elif r < 0.93:
            morph.append(["ins", DOM, lab, la])
        else:
            morph.append(["ins", COD, lab, lb])
    facts = []
    for lab in labels[MODEL]:
        for sx in members[lab]:
            if rng.random() < 0.6:
                facts.append(["ins", "ps", lab, sx])
            for tl in labels["Ta"]:
                if rng.random() < 0.4:
                    facts.append(["ins", "pr", lab, sx, tl])
            if "fs" in sig.funcs and rng.random() < 0.4:
                facts.append(["ins", "fs", lab, sx, rng.choice(members[lab])])
        if rng.random() < 0.3:
            facts.append(["ins", "gm", lab])
    for tl in labels["Ta"]:
        if rng.random() < 0.4:
            facts.append(["ins", "ga", tl])
    rng.shuffle(facts)
    return create, morph, facts


# ---------------------------------------------------------------------------------------------
# histories: objects, an acyclic morphism diagram (possibly with dangling ends), carriers, facts


def gen_model_facts(rng, sig, th):
    create = []
    labels = {ty: [] for ty in sig.all_types}
    for ty in sig.types:
        if ty in (MODEL, MOR):
            continue
        for i in range(rng.randint(1, 3)):
            lab = "%s%d" % (ty, i)
            create.append(["new", ty, lab])
            labels[ty].append(lab)
    nobj = rng.randint(2, 4)
    consts = [f for f in sorted(sig.funcs) if sig.funcs[f] == ([], MODEL)]
    for i in range(nobj):
        lab = "%s%d" % (MODEL, i)
        if i < len(consts) and rng.random() < 0.8:
            create.append(["def", consts[i], lab])
        else:
            create.append(["new", MODEL, lab])
        labels[MODEL].append(lab)
    nmor = rng.randint(1, 4)
    morph = []  # assertion ops that build the diagram
    mconsts = [f for f in sorted(sig.funcs) if sig.funcs[f] == ([], MOR)]
    for i in range(nmor):
        lab = "%s%d" % (MOR, i)
        if i < len(mconsts) and rng.random() < 0.7:
            create.append(["def", mconsts[i], lab])
        else:
            create.append(["new", MOR, lab])
        labels[MOR].append(lab)
        a, b = sorted(rng.sample(range(nobj), 2))  # dom index < cod index: acyclic by construction
        if i == 0 and rng.random() < 0.5:
            a, b = 0, 1  # between the models that constants (and rules about them) name
        r = rng.random()
        if r < 0.8:
            morph.append(["ins", DOM, lab, labels[MODEL][a]])
            morph.append(["ins", COD, lab, labels[MODEL][b]])
        elif r < 0.9:
            morph.append(["ins", DOM, lab, labels[MODEL][a]])
        else:
            morph.append(["ins", COD, lab, labels[MODEL][b]])
    facts = []
    rels = [r for r in sorted(sig.rels) if r not in (DOM, COD) and not (r in sig.funcs and sig.funcs[r][1] in (MODEL, MOR))]
    target = rng.randint(2, 10)
    for _ in range(target * 3):
        if len(facts) >= target or not rels:
            break
        r = rng.choice(rels)
        cols = sig.rels[r]
        if any(not labels[t] for t in cols):
            continue
        if r in th["member"] and rng.random() < 0.6:
            # bias member facts towards objects that are sources of morphisms
            args = [labels[MODEL][min(rng.randrange(nobj), rng.randrange(nobj))]] + [rng.choice(labels[t]) for t in cols[1:]]
        else:
            args = [rng.choice(labels[t]) for t in cols]
        facts.append(["ins", r] + args)
    if rng.random() < 0.25:
        ty = rng.choice([t for t in sig.types if t not in (MODEL, MOR)])
        if len(labels[ty]) >= 2:
            a, b = rng.sample(labels[ty], 2)
            facts.append(["eq", ty, a, b])
    if rng.random() < 0.45 and nobj >= 3 and morph:
        # a morphism with two codomains (or domains): single-valuedness identifies the two models
        # without producing any new row of the morphism diagram
        cands = [x for x in morph if x[1] in (DOM, COD)]
        cods0 = [x for x in cands if x[1] == COD and x[2] == labels[MOR][0]]
        o = cods0[0] if cods0 and rng.random() < 0.6 else rng.choice(cands)
        other = rng.choice([l for l in labels[MODEL] if l != o[3]])
        morph.append(["ins", o[1], o[2], other])
    if rng.random() < 0.3 and nobj >= 3:
        # two models identified by the caller (histories whose merged diagram is cyclic are skipped
        # by the check): rows one of them inherited must count for the other as well
        a, b = rng.sample(labels[MODEL], 2)
        facts.append(["eq", MODEL, a, b])
    return create, morph, facts


def timing_variants(rng, create, morph, facts, k):
    """Histories asserting the same things; they differ in when the diagram, the facts and the
    closes come.  The first one is the order the repository's tests use (diagram first, no
    intermediate close)."""
    bound = [gen.op_binds(o) for o in create]
    vs = []
    vs.append(("diagram-first", list(create) + morph + facts + [["close"]]))
    vs.append(("facts-first", list(create) + facts + morph + [["close"]]))
    vs.append(("facts-closed-then-diagram", list(create) + facts + [["close"]] + morph + [["close"]]))
    vs.append(("diagram-closed-then-facts", list(create) + morph + [["close"]] + facts + [["close"]]))
    doms = [o for o in morph if o[1] == DOM]
    cods = [o for o in morph if o[1] != DOM]  # codomains and, after them, the images the caller asserts
    vs.append(("dom-and-cod-in-different-closes", list(create) + facts + doms + [["close"]] + cods + [["close"]]))
    vs.append(("cod-then-facts-then-dom", list(create) + cods + [["close"]] + facts + [["close"]] + doms + [["close"]]))
    seen, first, second = set(), [], []
    for o in morph:
        key = (o[1], o[2]) if o[1] in (DOM, COD) else None
        if key is not None and key in seen:
            second.append(o)
        else:
            first.append(o)
            if key is not None:
                seen.add(key)
    if second:
        # a second domain/codomain for a morphism arrives after everything else was closed: the two
        # models are identified although no row of the morphism diagram is new afterwards
        vs.append(("second-codomain-after-close", list(create) + first + facts + [["close"]] + second + [["close"]]))
        vs.append(("second-codomain-together-with-facts-after-close", list(create) + first + [["close"]] + second + facts + [["close"]]))
        k += 2
    for j in range(max(0, k - len(vs))):
        allops = gen.dep_shuffle(rng, morph + facts, bound)
        vs.append(("shuffled-with-closes-%d" % j, gen.with_closes(rng, create, allops, closes=(1, 3))))
    if k > 6:
        ops = list(create)
        for o in gen.dep_shuffle(rng, morph + facts, bound):
            ops.append(o)
            ops.append(["close"])
        ops.append(["close"])
        vs.append(("close-after-every-assertion", ops))
    return vs[:max(k, 6)] if k >= 6 else vs[:k]


# ---------------------------------------------------------------------------------------------
# oracles


def inheritance_closure(sig, th, pub):
    """(I) on a public dump: for every morphism with dom a and cod b, every member tuple at a is at b."""
    bad = []
    dom = {r[0]: r[1] for r in pub["rels"].get(DOM, [])}
    cod = {r[0]: r[1] for r in pub["rels"].get(COD, [])}
    image = {(r[0], r[1]): r[2] for r in pub["rels"].get(APP, [])}
    n = 0
    for m in sorted(set(dom) & set(cod)):
        a, b = dom[m], cod[m]
        for rel in th["member"]:
            rows = pub["rels"].get(rel, [])
            cols = sig.rels[rel]
            have = set(tuple(r) for r in rows)
            for r in rows:
                if r[0] != a:
                    continue
                # member-typed components are replaced by their images; a row with a component that
                # has no image is not inherited
                img = [b]
                for ty, x in zip(cols[1:], r[1:]):
                    img.append(image.get((m, x)) if ty == MTYPE else x)
                if any(x is None for x in img):
                    continue
                n += 1
                if tuple(img) not in have:
                    bad.append("%s%s holds at the domain %d of morphism %d but its image %s%s does not hold at the codomain %d" % (rel, tuple(r[1:]), a, m, rel, tuple(img[1:]), b))
    return bad, n


COPY_PROBLEMS = []  # filled by old_without_new for the history it was last called on


def old_without_new(sig, th, events):
    """(N) over the condition evaluations of one history: rows found in the old partition of a member
    relation's `_all` copy that were in neither partition at the previous observation point.
    Returns (list of descriptions, number of observation steps checked)."""
    from .invariants import decode_index_rows
    from .theory import snake
    rel_snakes = {snake(r): r for r in sig.rels}
    type_snakes = {snake(t): t for t in sig.all_types}
    prev = None
    prev_alloc = None
    found = []
    copy_problems = COPY_PROBLEMS
    del copy_problems[:]
    steps = 0
    for ev in events:
        # no reset between closes: API calls made after a close only ever add rows to *new*
        # partitions (insert_) or mark elements for rewriting (equate_, rewritten rows re-enter as
        # new), and the state at the last condition evaluation of a close is its final state
        if ev.get("e") != "cond" or "private" not in ev:
            continue
        cur = {}
        copies = {}
        for name, rows in ev["private"]["index"].items():
            info = driver.parse_index_name(name, rel_snakes, type_snakes)
            if info["suffix"] not in ("all", "own") or info["kind"] != "rel" or info["eqs"]:
                continue
            rel = rel_snakes[info["base"]]
            full = set(tuple(r) for r in decode_index_rows(info, rows, len(sig.rels[rel])))
            copies.setdefault((rel, info["age"], info["suffix"]), []).append((name, full))
            if info["suffix"] == "all":
                cur.setdefault(rel, {"new": set(), "old": set()})[info["age"]] |= full
        # (C) all column orders of one (relation, age, own|all) describe the same rows; own is part of all;
        # the public iterator yields exactly new-all + old-all
        for (rel, age, suffix), cs in sorted(copies.items()):
            for name, full in cs[1:]:
                if full != cs[0][1] and len(copy_problems) < 5:
                    copy_problems.append("condition evaluation %d: index copies %s and %s of %s hold different rows: only in the first %s, only in the second %s" % (
                        ev["iter"], cs[0][0], name, rel, sorted(cs[0][1] - full)[:3], sorted(full - cs[0][1])[:3]))
            if suffix == "own":
                al = copies.get((rel, age, "all"))
                if al and not cs[0][1] <= al[0][1] and len(copy_problems) < 5:
                    copy_problems.append("condition evaluation %d: %s rows %s of %s are in the own copy but not in the all copy" % (ev["iter"], age, sorted(cs[0][1] - al[0][1])[:3], rel))
        if "public" in ev:
            for rel, parts in cur.items():
                pubrows = set(tuple(r) for r in ev["public"]["rels"].get(rel, []))
                if pubrows != (parts["new"] | parts["old"]) and len(copy_problems) < 5:
                    copy_problems.append("condition evaluation %d: iter_%s yields %s but the `_all` copies hold %s" % (ev["iter"], rel, sorted(pubrows ^ (parts["new"] | parts["old"]))[:3], "other rows"))
        if prev is not None:
            steps += 1
            roots = ev.get("public", {}).get("roots")
            for rel, parts in cur.items():
                before = prev.get(rel, {"new": set(), "old": set()})
                seen = before["old"] | before["new"]
                if roots is not None:
                    # ids merged since the previous observation: compare modulo today's roots
                    cols = sig.rels[rel]
                    seen = seen | set(tuple(roots[t][x] if x < len(roots[t]) else x for t, x in zip(cols, row)) for row in seen)
                fresh_old = parts["old"] - seen
                if prev_alloc is not None:
                    # rows that mention an element allocated since the previous observation were created
                    # by the pending function definitions applied in between (they were new while the
                    # rules ran, but no observation point falls into that window)
                    cols = sig.rels[rel]
                    fresh_old = set(row for row in fresh_old if not any(x >= prev_alloc.get(t, 0) for t, x in zip(cols, row)))
                for row in sorted(fresh_old):
                    found.append("%s%s entered the old `_all` partition at condition evaluation %d without having been new" % (rel, row, ev["iter"]))
        prev = cur
        if ev.get("public", {}).get("roots") is not None:
            prev_alloc = {t: len(v) for t, v in ev["public"]["roots"].items()}
    return found, steps


def fixed_named_models_theory():
    """subset_rules.eql in miniature: constants naming two models and a morphism, rules deriving the
    morphism's domain and codomain from the constants, a rule joining member facts of both models."""
    th = {"name": "mt", "types": ["Ta", MODEL, MOR], "enums": [], "member": ["pa"], "seed": -1,
          "preds": [{"name": "pa", "args": [MODEL, "Ta"]}, {"name": "both", "args": ["Ta"]}],
          "funcs": [{"name": "ca", "args": [], "res": MODEL}, {"name": "cb", "args": [], "res": MODEL}, {"name": "cm", "args": [], "res": MOR},
                    {"name": DOM, "args": [MOR], "res": MODEL}, {"name": COD, "args": [MOR], "res": MODEL}],
          "rules": [
              {"name": "in_both", "body": [_if(_p("pa", app("ca"), var("xa"))), _if(_p("pa", app("cb"), var("xa"))), _then(_p("both", var("xa")))]},
              {"name": "cm_dom", "body": [_if(_eq(var("x"), app("ca"))), _if(_eq(var("f"), app("cm"))), _then(_eq(app(DOM, var("f")), var("x")))]},
              {"name": "cm_cod", "body": [_if(_eq(var("y"), app("cb"))), _if(_eq(var("f"), app("cm"))), _then(_eq(app(COD, var("f")), var("y")))]}]}
    th = json.loads(json.dumps(th))
    th["text"] = render(th)
    return th


def fixed_cases():
    """Hand-written scenarios (found by the thorough tier or taken from the repository's tests) that
    every run replays under the same oracles as the generated histories: (theory, create, morph,
    facts, [(variant name, ops)])."""
    create = [["new", "Ta", "Ta0"], ["def", "ca", "Ma0"], ["def", "cb", "Ma1"], ["new", MODEL, "Ma2"], ["def", "cm", "MaMor0"]]
    second = [["ins", COD, "MaMor0", "Ma2"]]
    facts = [["ins", "pa", "Ma0", "Ta0"]]
    c = [["close"]]
    variants = [
        ("all-at-once", create + second + facts + c),
        ("fact-and-second-codomain-after-close", create + c + second + facts + c),
        ("fact-closed-then-second-codomain", create + facts + c + second + c),
        ("fact-closed-alone-then-second-codomain", create + c + facts + c + second + c),
        ("second-codomain-closed-then-fact", create + second + c + facts + c),
    ]
    return [(fixed_named_models_theory(), create, second, facts, variants)]


def c17_task(task):
    out = _empty_out()
    mt = task.get("family") == "member-type"
    fixed = None
    if task.get("family") == "fixed":
        fixed = fixed_cases()[task["tseed"]]
        th = fixed[0]
    else:
        th = gen_member_type_theory(task["tseed"]) if mt else gen_model_theory(task["tseed"])
    if th is None:
        _inc(out, "generated-theory-without-rules")
        return out
    sig = Sig(th)
    meta = driver.compile_theory(th)
    if not meta["ok"]:
        if meta["stage"] == "eqlog" and meta.get("eqlog_rc") == 1:
            _cnt(out, "programs_rejected_by_compiler")
            out.setdefault("notes", []).append(meta["stderr"][:400])
        else:
            _inc(out, "build-failed:" + meta["stage"])
            out.setdefault("notes", []).append(meta["stderr"][-400:])
        return out
    _cnt(out, "programs")
    _cnt(out, "fixed_scenarios" if fixed is not None else ("programs_with_member_type" if mt else "programs_member_relations_over_global_types"))
    rth = reference_theory(th)
    rng = random.Random(sha(str(task["tseed"]), str(task["seed"]), "c17"))
    hists = []
    groups = []
    for i in range(task["factsets"] if fixed is None else 1):
        if fixed is not None:
            _, create, morph, facts, vs = fixed
        else:
            create, morph, facts = (gen_member_type_facts if mt else gen_model_facts)(rng, sig, th)
            vs = timing_variants(rng, create, morph, facts, task["variants"])
        tags = []
        for j, (vname, ops) in enumerate(vs):
            tag = "f%dv%d" % (i, j)
            # obs 3: private dumps at every condition evaluation (mechanism monitor N)
            hists.append((tag, 3, ops + [["dump"]]))
            tags.append((tag, vname, ops))
        groups.append((tags, create, morph, facts))
    status, hs, script = _run(meta, hists, out, timeout=120)
    by_tag = {h["tag"]: h for h in hs}
    for tags, create, morph, facts in groups:
        # reference: free model of the assertions (order is irrelevant for it)
        try:
            m0, rlabs = reference_input(sig, list(create) + morph + facts)
            ref.chase(rth, m0, max_rounds=40, max_elems=90)
        except ref.Bound:
            _inc(out, "reference-chase-bound")
            continue
        except ref.RefError as e:
            _inc(out, "reference-outside-fragment")
            continue
        want = ref.canon(m0, rlabs)
        # the morphism diagram of the free model must be acyclic, else close() panics by design
        dom = {}
        cod = {}
        for row in m0.rels[DOM]:
            dom[m0.find(row[0])] = m0.find(row[1])
        for row in m0.rels[COD]:
            cod[m0.find(row[0])] = m0.find(row[1])
        edges = {}
        for f in set(dom) & set(cod):
            edges.setdefault(dom[f], set()).add(cod[f])
        if _cyclic(edges):
            _inc(out, "outside-range:cyclic-morphism-diagram")
            continue
        canons = []
        for tag, vname, ops in tags:
            h = by_tag.get(tag)
            if h is None:
                continue
            evs = [e for e in h["events"] if e.get("e") == "op"]
            if any("panic" in e for e in evs):
                p = [e for e in evs if "panic" in e][0]
                out["violations"].append(_vio("c17:panic:" + p["panic"][:60], "API call panicked in history %s (%s): %s" % (tag, vname, p["panic"]), th, script, {"history.txt": tag}))
                continue
            if any(e.get("capped") for e in evs if e["op"] == "close"):
                _inc(out, "close-capped")
                continue
            dumps = [e for e in evs if e["op"] == "dump"]
            if not dumps:
                _inc(out, "no-final-dump")
                continue
            pub = dumps[-1]["public"]
            out["evaluations"] += 1
            _cnt(out, "variant_" + vname.split("-%d" % 0)[0].rstrip("0123456789-"))
            # (N) mechanism monitor
            try:
                breaches, steps = old_without_new(sig, th, h["events"])
            except driver.HarnessError as e:
                _inc(out, "probe-cannot-classify")
                breaches, steps = [], 0
            _cnt(out, "observation_steps_checked", steps)
            if COPY_PROBLEMS:
                out["violations"].append(_vio("c17:index-copies-disagree", "history %s (%s): redundant copies of a member relation disagree:\n  %s" % (tag, vname, "\n  ".join(COPY_PROBLEMS[:4])), th, script, {"history.txt": tag}))
                continue
            # (I) inheritance closure
            bad, n = inheritance_closure(sig, th, pub)
            _cnt(out, "inherited_tuples_checked", n)
            if bad:
                out["violations"].append(_vio("c17:not-inherited", "after close() (history %s, %s):\n  %s" % (tag, vname, "\n  ".join(bad[:5])), th, script, {"history.txt": tag}))
                continue
            labs = labels_of(sig, h["events"])
            m = model_from_dump(sig, pub)
            got = ref.canon(m, labs)
            only_missing = not ref.embeds(m, labs, m0, rlabs)
            canons.append((tag, vname, got, only_missing))
            # (S) + (F)
            problems = []
            viol = ref.satisfied(m, rth, limit=3)
            if viol:
                problems.append("closed model violates rules (inherited tuples included):\n    " + "\n    ".join(str(v)[:300] for v in viol[:3]))
            if got != want:
                problems.append("closed model is not the free model:\n    " + "\n    ".join(ref.canon_diff(got, want)[:5]))
            nontriv = n > 0
            if nontriv:
                out["distinct"].append(sha(th["text"], vname, json.dumps(got, sort_keys=True))[:16])
                _cnt(out, "closed_models_with_inherited_tuples")
            if problems:
                what = "history %s (%s):\n  %s" % (tag, vname, "\n  ".join(problems))
                if breaches and only_missing:
                    # known mechanism (D4): everything wrong is something missing, and the private log
                    # shows rows that became old in an `_all` copy without ever being presented as new
                    _cnt(out, "late_inheritance_cases")
                    what += "\nmechanism observed in the private dumps of this history:\n  " + "\n  ".join(breaches[:3])
                    out["violations"].append(_vio(LATE_KEY, what, th, script, {"history.txt": tag}))
                else:
                    out["violations"].append(_vio("c17:" + ("rules-violated" if viol else "not-free"), what, th, script, {"history.txt": tag}))
            elif breaches:
                _cnt(out, "old_without_new_rows_without_visible_consequence", len(breaches))
        # (M)
        if len(canons) >= 2:
            base = canons[0]
            for tag, vname, cn, om in canons[1:]:
                out["evaluations"] += 1
                _cnt(out, "timing_variant_pairs")
                if cn != base[2]:
                    diff = ref.canon_diff(cn, base[2])
                    what = "two histories that differ only in timing closed to different models (%s [%s] vs %s [%s]):\n  %s" % (tag, vname, base[0], base[1], "\n  ".join(diff[:5]))
                    h = by_tag.get(tag)
                    hb = by_tag.get(base[0])
                    br = []
                    for hh in (h, hb):
                        try:
                            br += old_without_new(sig, th, hh["events"])[0]
                        except Exception:
                            pass
                    if br and om and base[3]:
                        out["violations"].append(_vio(LATE_KEY, what + "\nmechanism observed:\n  " + "\n  ".join(br[:3]), th, script, {"history.txt": tag + " vs " + base[0]}))
                    else:
                        out["violations"].append(_vio("c17:timing-dependent", what, th, script, {"history.txt": tag + " vs " + base[0]}))
                    break
    if hists and not out["samples"]:
        out["samples"].append({"theory": th["text"][:1500], "history": [" ".join(map(str, o)) for o in hists[min(2, len(hists) - 1)][2]][:40]})
    return out


LATE_KEY = "c17:inherited-tuple-old-without-having-been-new"


def _cyclic(edges):
    color = {}

    def dfs(u):
        color[u] = 1
        for v in edges.get(u, ()):
            if color.get(v) == 1:
                return True
            if v not in color and dfs(v):
                return True
        color[u] = 2
        return False
    return any(u not in color and dfs(u) for u in list(edges))


def c17(tier, replay=None):
    res = Result("C17", tier)
    res.rule = ("one evaluation = one closed model of a generated model theory (one `model` with member predicates/functions over global types, global "
                "rules over member relations, constants naming models and morphisms, dom/cod asserted by the caller or derived by rules) under one timing "
                "variant, judged by (I) inheritance closure on the dump, (S) all rules incl. explicit inheritance rules hold, (F) equality with the reference "
                "free model, (N) no row becomes old in an `_all` copy without having been new; plus one evaluation per pair of timing variants (M); "
                "distinct non-trivial = distinct (theory, variant, closed model) with at least one inherited tuple")
    res.assumptions = ["the reference semantics of inheritance: p(a, xs) & dom(f)=a & cod(f)=b => p(b, xs) for every member relation (no member types in these theories)",
                       "morphism diagrams are kept acyclic (the generated close() rejects cycles by design: expect(\"TODO ...\"))"]
    q = tier == "quick"
    n = 96 if q else 600
    tasks = [{"tseed": seed() * 100003 + 900000 + i, "seed": seed(), "factsets": 5 if q else 10, "variants": 8 if q else 9} for i in range(n)]
    tasks += [{"tseed": i, "seed": seed(), "factsets": 1, "variants": 0, "family": "fixed"} for i in range(len(fixed_cases()))]
    nm = 48 if q else 300
    tasks += [{"tseed": seed() * 100003 + 960000 + i, "seed": seed(), "factsets": 5 if q else 10, "variants": 8 if q else 9, "family": "member-type"} for i in range(nm)]
    aggregate(res, pmap(c17_task, tasks))
    return res.finish()


TABLE = {"C17": c17}
