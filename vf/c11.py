"""C11: any input is answered by success or a well-formed diagnostic, never a crash.

Runtime monitor around the real CLI binary.  Every input file is compiled (module build) in its
own process under a CPU-time limit (RLIMIT_CPU) and a generous wall-clock watchdog; the monitor
records exit status and stderr and decides:

  crash        exit status other than 0/1 (101 = Rust panic, negative = signal)          VIOLATION
  cpu-limit    the process used more CPU time than CPU_LIMIT (SIGXCPU/SIGKILL by kernel) VIOLATION
               (bounded-progress restatement of "never hangs"; decided on CPU seconds,
               not wall clock; inputs are small: <= MAX_LINES lines)
  watchdog     wall clock watchdog fired without the CPU limit being reached             inconclusive
  exit 1       stderr must be a diagnostic of the fixed layout; every excerpt block must
               name a line N in 1..=lines(input), print complete input lines N, N+1, ...
               and underline (^) at least one column; for inputs whose defect position
               the monitor knows (planted invalid token, truncation, deleted token) the
               primary block must lie where the defect is; layout-only variants of one
               input (CRLF, no trailing newline, non-ASCII comment text, trailing blank
               lines) must give the same verdict, message and line numbers as the base.
"""
import os
import random
import re
import resource
import shutil
import signal
import subprocess
import tempfile
import time

from .checks_model import _cnt, _empty_out, _inc, aggregate
from .modelrun import pmap
from .util import EQLOG_BIN, MIRROR, VERIF, WORK, Result, env_with, seed, sha

CPU_LIMIT = 150  # CPU seconds per compilation (median is < 1 s for these inputs)
WALL_LIMIT = 900
MAX_LINES = 160


def _limits():
    resource.setrlimit(resource.RLIMIT_CPU, (CPU_LIMIT, CPU_LIMIT + 5))
    resource.setrlimit(resource.RLIMIT_CORE, (0, 0))
    os.setsid()


def compile_bytes(data, name="theory", keep=False):
    """Compile one input (bytes) with the real CLI in module mode.
    Returns dict(rc, stderr, cpu, status) with status in ok|error|crash|cpu-limit|watchdog."""
    d = tempfile.mkdtemp(prefix="c11-", dir=WORK)
    try:
        os.makedirs(os.path.join(d, "src"))
        p = os.path.join(d, "src", name + ".eql")
        with open(p, "wb") as f:
            f.write(data)
        t0 = time.time()
        r0 = resource.getrusage(resource.RUSAGE_CHILDREN)
        try:
            proc = subprocess.Popen([EQLOG_BIN, "src", "out"], cwd=d, env=env_with({"RUST_BACKTRACE": "0"}),
                                    stdout=subprocess.PIPE, stderr=subprocess.PIPE, preexec_fn=_limits)
        except OSError as e:
            return {"rc": None, "stderr": str(e), "cpu": 0.0, "status": "harness-error"}
        try:
            out, err = proc.communicate(timeout=WALL_LIMIT)
            timed_out = False
        except subprocess.TimeoutExpired:
            try:
                os.killpg(proc.pid, signal.SIGKILL)
            except OSError:
                pass
            out, err = proc.communicate()
            timed_out = True
        r1 = resource.getrusage(resource.RUSAGE_CHILDREN)
        cpu = (r1.ru_utime + r1.ru_stime) - (r0.ru_utime + r0.ru_stime)
        rc = proc.returncode
        err = err.decode("utf-8", "replace")
        if timed_out:
            st = "watchdog"
        elif rc in (-signal.SIGXCPU, -signal.SIGKILL) and cpu >= CPU_LIMIT - 2:
            st = "cpu-limit"
        elif rc == 0:
            st = "ok"
        elif rc == 1:
            st = "error"
        else:
            st = "crash"
        return {"rc": rc, "stderr": err, "cpu": cpu, "status": st, "wall": time.time() - t0}
    finally:
        if not keep:
            shutil.rmtree(d, ignore_errors=True)


# ---------------------------------------------------------------------------------------------
# diagnostic layout

PTR_RE = re.compile(r"^( *)--> (.*):(\d+)$")
NUM_RE = re.compile(r"^( *)(\d+) \| (.*)$", re.S)
BAR_RE = re.compile(r"^( *) \| (.*)$", re.S)


def split_lines(data_text):
    """The lines of the input as a user counts them: split on \\n; a trailing \\r belongs to the
    terminator.  A final empty piece (text ends in a newline) is not a line."""
    parts = data_text.split("\n")
    if parts and parts[-1] == "":
        parts = parts[:-1]
    return parts


def parse_diagnostic(stderr):
    """-> (message_first_line, blocks, problems). block = dict(first_line, lines=[(n, text)], carets=int)"""
    lines = stderr.split("\n")
    problems = []
    if not lines or not lines[0].startswith("Error: "):
        return None, [], ["stderr does not start with 'Error: '"]
    msg = lines[0][len("Error: "):]
    blocks = []
    i = 1
    while i < len(lines):
        m = PTR_RE.match(lines[i])
        if not m:
            i += 1
            continue
        blk = {"first_line": int(m.group(3)), "path": m.group(2), "lines": [], "carets": 0}
        i += 1
        # opening bar
        if i < len(lines) and BAR_RE.match(lines[i]) and BAR_RE.match(lines[i]).group(2).strip() == "":
            i += 1
        else:
            problems.append("block at %d lacks the opening ' | ' line" % blk["first_line"])
        while i < len(lines):
            mn = NUM_RE.match(lines[i])
            if mn:
                blk["lines"].append((int(mn.group(2)), mn.group(3)))
                i += 1
                if i < len(lines):
                    mb = BAR_RE.match(lines[i])
                    if mb and not NUM_RE.match(lines[i]) and "^" in mb.group(2) and set(mb.group(2)) <= set("^ "):
                        blk["carets"] += mb.group(2).count("^")
                        blk.setdefault("caret_cols", []).append((int(mn.group(2)), mb.group(2)))
                        i += 1
                    elif mb and not NUM_RE.match(lines[i]) and mb.group(2).strip() == "" and len(blk["lines"]) >= 1:
                        # either an all-blank underline or the closing bar; decide by lookahead
                        nxt = lines[i + 1] if i + 1 < len(lines) else ""
                        if NUM_RE.match(nxt):
                            i += 1  # blank underline of a line that is not underlined at all
                        # else: leave it for the closing-bar logic below
                continue
            mb = BAR_RE.match(lines[i])
            if mb and mb.group(2).strip() == "":
                i += 1
                break
            break
        blocks.append(blk)
    if not blocks:
        problems.append("no '--> file:line' block in the diagnostic")
    return msg, blocks, problems


def check_diagnostic(text, stderr):
    """Generic well-formedness of an exit-1 diagnostic against the input text.
    Returns (msg, blocks, problems)."""
    msg, blocks, problems = parse_diagnostic(stderr)
    if msg is None:
        return msg, blocks, problems
    in_lines = split_lines(text)
    n = len(in_lines)
    for b in blocks:
        if not (1 <= b["first_line"] <= max(n, 1)):
            problems.append("reported line %d is not inside the file (1..%d)" % (b["first_line"], n))
            continue
        if not b["lines"]:
            problems.append("block --> :%d prints no excerpt line" % b["first_line"])
            continue
        if b["lines"][0][0] != b["first_line"]:
            problems.append("block --> :%d starts its excerpt at line %d" % (b["first_line"], b["lines"][0][0]))
        prev = None
        for (ln, txt) in b["lines"]:
            if prev is not None and ln != prev + 1:
                problems.append("excerpt line numbers are not consecutive (%d after %d)" % (ln, prev))
            prev = ln
            if not (1 <= ln <= n):
                problems.append("excerpt line number %d is not inside the file (1..%d)" % (ln, n))
                continue
            real = in_lines[ln - 1]
            if txt != real and txt != real.rstrip("\r") and txt.rstrip("\r") != real.rstrip("\r"):
                problems.append("excerpt for line %d is not the complete input line: printed %r, input line is %r" % (ln, txt[:80], real[:80]))
        if b["carets"] == 0:
            problems.append("block --> :%d underlines nothing (the excerpt does not contain the reported position)" % b["first_line"])
    return msg, blocks, problems


# ---------------------------------------------------------------------------------------------
# inputs

TOKEN_RE = re.compile(r"//[^\n]*|[A-Za-z_][A-Za-z0-9_']*|:=|->|=>|\S")


def tokens(text):
    """[(start, end, text)] of non-comment tokens."""
    out = []
    for m in TOKEN_RE.finditer(text):
        if m.group(0).startswith("//"):
            continue
        out.append((m.start(), m.end(), m.group(0)))
    return out


def line_of(text, pos):
    return text.count("\n", 0, pos) + 1


def base_sources():
    """(name, text) of programs the mutators start from: the repository's accepted theories, its
    error-test sources and the hostile theories of /verif/theories."""
    out = []
    ev = os.path.join(MIRROR, "eqlog-test-eval", "src")
    for f in sorted(os.listdir(ev)):
        if f.endswith(".eql"):
            out.append(("eval/" + f, open(os.path.join(ev, f), encoding="utf-8").read()))
    et = os.path.join(MIRROR, "eqlog-test-compile", "error-test-source")
    for d in sorted(os.listdir(et)):
        p = os.path.join(et, d, "theory.eql")
        if os.path.exists(p):
            out.append(("err/" + d, open(p, encoding="utf-8").read()))
    td = os.path.join(VERIF, "theories")
    for f in sorted(os.listdir(td)):
        if f.endswith(".eql"):
            out.append(("hostile/" + f, open(os.path.join(td, f), encoding="utf-8").read()))
    return [(n, t) for n, t in out if t.count("\n") <= MAX_LINES]


NONASCII = ["é", "ß", "Ω", "→", "日本語", "😀", " ", " ", "é", "﻿"]
INVALID_CHARS = ["$", "#", "%", "?", "&", "~", "`", "\\", "[", "é", "→", "😀", "\x00", "\x0b"]


def layout_variants(rng, text):
    """(tag, bytes, line_map) layout-only rewrites of `text`: the verdict, the message and the
    reported line numbers must be those of the base.  line numbers are unchanged by all of them."""
    vs = []
    crlf = text.replace("\r\n", "\n").replace("\n", "\r\n")
    vs.append(("crlf", crlf))
    if text.endswith("\n"):
        vs.append(("no-trailing-newline", text.rstrip("\n")))
    else:
        vs.append(("added-trailing-newline", text + "\n"))
    vs.append(("trailing-blank-lines", text + ("" if text.endswith("\n") else "\n") + "\n\n"))
    # mixed: every second line CRLF
    parts = text.split("\n")
    mixed = "".join(p + ("\r\n" if i % 2 else "\n") for i, p in enumerate(parts[:-1])) + parts[-1]
    vs.append(("mixed-line-endings", mixed))
    # non-ASCII comment text appended to random lines (line structure unchanged)
    ls = text.split("\n")
    k = 0
    for i in range(len(ls)):
        if rng.random() < 0.5 and (i < len(ls) - 1 or ls[i] != ""):
            ls[i] = ls[i] + " // " + rng.choice(NONASCII) + " " + rng.choice(NONASCII) * rng.randrange(1, 4)
            k += 1
    if k:
        vs.append(("non-ascii-comments", "\n".join(ls)))
        vs.append(("non-ascii-comments-crlf", "\n".join(ls).replace("\n", "\r\n")))
    # tabs instead of leading spaces
    vs.append(("tabs", re.sub(r"(?m)^(    )+", lambda m: "\t" * (len(m.group(0)) // 4), text)))
    # trailing whitespace + CR-less final line
    vs.append(("crlf-no-final-newline", crlf.rstrip("\r\n")))
    return vs


def positioned_mutants(rng, text, k):
    """Mutants whose defect position the monitor knows: (tag, new_text, expectation).
    expectation = dict(kind=..., min_line=..., max_line=...) applying to *parse* diagnostics."""
    toks = tokens(text)
    out = []
    if not toks:
        return out
    for _ in range(k):
        r = rng.random()
        if r < 0.3:
            # an invalid character planted at a token boundary, inside a token, or replacing one
            ch = rng.choice(INVALID_CHARS)
            s, e, t = rng.choice(toks)
            where = rng.choice(("before", "inside", "after"))
            pos = s if where == "before" else (e if where == "after" else rng.randrange(s, e + 1))
            new = text[:pos] + ch + text[pos:]
            ln = line_of(new, pos)
            out.append(("invalid-char-%r-%s" % (ch, where), new, {"kind": "invalid-char", "line": ln, "pos": pos}))
        elif r < 0.6:
            # truncation at a token boundary or inside a token, with or without a final newline
            s, e, t = rng.choice(toks)
            pos = rng.choice((s, e, rng.randrange(s, e + 1)))
            new = text[:pos]
            tail = rng.choice(("", "\n", "\r\n", " ", "\n\n"))
            prev = [x for x in toks if x[1] <= pos]
            min_line = line_of(text, prev[-1][0]) if prev else 1
            out.append(("truncate-at-%d%s" % (pos, "+" + repr(tail) if tail else ""), new + tail, {"kind": "truncate", "min_line": min_line}))
        elif r < 0.8:
            i = rng.randrange(len(toks))
            s, e, t = toks[i]
            new = text[:s] + text[e:]
            prev_line = line_of(text, toks[i - 1][0]) if i > 0 else 1
            out.append(("delete-token-%d-%r" % (i, t), new, {"kind": "delete", "min_line": prev_line}))
        else:
            i = rng.randrange(len(toks))
            s, e, t = toks[i]
            new = text[:e] + " " + t + text[e:]
            out.append(("duplicate-token-%d-%r" % (i, t), new, {"kind": "duplicate", "min_line": line_of(text, s)}))
    return out


def synthetic_inputs(rng):
    """Inputs not derived from a program."""
    out = [
        ("empty", ""),
        ("newline-only", "\n"),
        ("crlf-only", "\r\n"),
        ("cr-only", "\r"),
        ("spaces", "   "),
        ("comment-only", "// nothing here"),
        ("comment-only-nl", "// nothing here\n"),
        ("comment-only-nonascii", "// → é 日本語"),
        ("bom", "﻿type A;\n"),
        ("lone-cr-lines", "type A;\rtype B;\rpred p(A);\r"),
        ("nonascii-ident", "type Ä;\n"),
        ("nonascii-ident-2", "type A;\npred pé(A);\n"),
        ("nonascii-var", "type A;\npred p(A);\nrule r {\n    if p(é);\n    then p(é);\n}\n"),
        ("quote-run", "type A;\npred p(A);\nrule r {\n    if p(x''''''');\n    then p(x''''''');\n}\n"),
        ("unterminated-rule", "type A;\npred p(A);\nrule r {\n    if p(x);"),
        ("unterminated-rule-nl", "type A;\npred p(A);\nrule r {\n    if p(x);\n"),
        ("eof-after-keyword", "type"),
        ("eof-after-keyword-sp", "type "),
        ("eof-in-args", "type A;\npred p(A"),
        ("eof-in-comment", "type A; // trailing"),
        ("slash", "type A;\n/"),
        ("slash-star", "/* c */ type A;\n"),
        ("only-semicolons", ";;;;\n"),
        ("crlf-error-late", "type A;\r\npred p(A);\r\nrule r {\r\n    if p(x);\r\n    then q(x);\r\n}\r\n"),
        ("crlf-comment-then-error", "// c1\r\n// c2\r\n// c3\r\n// c4\r\ntype A;\r\npred p(A);\r\nrule r {\r\n    if p(x);\r\n    then p(y);\r\n}\r\n"),
        ("tab-error", "type A;\npred p(A);\nrule r {\n\tif p(x);\n\tthen p(y);\n}\n"),
        ("very-long-line", "type A;\npred p(A);\nrule r {\n    if p(x);" + " " * 20000 + "then p(y);\n}\n"),
        ("very-long-comment", "type A; //" + "x" * 50000 + "\npred p(B);\n"),
        ("long-ident", "type A;\npred " + "p" * 5000 + "(A);\nrule r {\n    if q(x);\n    then q(x);\n}\n"),
        ("nul-bytes", "type A;\x00\npred p(A);\n"),
        ("form-feed", "type A;\x0cpred p(A);\n"),
        ("nbsp", "type A; pred p(A);\n"),
        ("unicode-line-sep", "type A; pred p(B);\n"),
        ("vertical-tab-error", "type A;\n\x0b\npred p(B);\n"),
        ("next-line-char", "type A;\u0085pred p(B);\n"),
    ]
    # deep nesting
    for depth in (10, 40, 120):
        t = "x"
        for _ in range(depth):
            t = "f(%s)" % t
        out.append(("deep-term-%d" % depth, "type A;\nfunc f(A) -> A;\npred p(A);\nrule r {\n    if y = %s;\n    then p(y);\n}\n" % t))
        out.append(("deep-term-then-%d" % depth, "type A;\nfunc f(A) -> A;\npred p(A);\nrule r {\n    if p(x);\n    then p(%s);\n}\n" % t))
        out.append(("deep-parens-unclosed-%d" % depth, "type A;\nfunc f(A) -> A;\nrule r {\n    if y = %s" % ("f(" * depth)))
    for depth in (5, 25):
        b = "if p(x);\n then p(x);\n"
        for _ in range(depth):
            b = "branch {\n%s} along {\n%s}\n" % (b, "if p(x);\n")
        out.append(("deep-branch-%d" % depth, "type A;\npred p(A);\nrule r {\n if p(x);\n%s}\n" % b))
    # many declarations / many errors
    out.append(("many-undeclared", "type A;\n" + "".join("rule r_%s {\n    if q_%s(x);\n    then q_%s(x);\n}\n" % (c, c, c) for c in "abcdefghij")))
    out.append(("same-error-many-lines", "type A;\npred p(A);\n" + "".join("rule {\n    if p(x);\n    then p(y_%s);\n}\n" % c for c in "abcdefgh")))
    return out


# ---------------------------------------------------------------------------------------------
# task


def _vio(key, what, data, extra=None):
    files = {"input.eql": data if isinstance(data, bytes) else data.encode("utf-8", "surrogatepass"), "README.txt": "python3 -m vf.c11 input.eql   # re-runs the monitor on this input\n"}
    if extra:
        files.update(extra)
    return {"key": key, "what": what, "files": files}


def judge_one(out, tag, text, res, expectation=None):
    """Generic verdict on one compilation. Returns the summary (status, msg, primary line) or None."""
    out["evaluations"] += 1
    _cnt(out, "status_" + res["status"])
    out["counts"]["max_cpu_s_x100"] = max(out["counts"].get("max_cpu_s_x100", 0), int(res["cpu"] * 100))
    data = text.encode("utf-8", "surrogatepass")
    if res["status"] == "harness-error":
        _inc(out, "harness-error")
        return None
    if res["status"] == "watchdog":
        _inc(out, "wall-clock-watchdog")
        return None
    if res["status"] == "cpu-limit":
        out["violations"].append(_vio("c11:cpu-limit", "input %s (%d bytes, %d lines): the compiler did not terminate within %d CPU seconds" % (tag, len(data), text.count("\n") + 1, CPU_LIMIT), data))
        return None
    if res["status"] == "crash":
        first = [l for l in res["stderr"].splitlines() if "panicked at" in l]
        site = first[0] if first else "rc=%s" % res["rc"]
        site = re.sub(r"thread '.*?' (\(\d+\) )?", "", site)
        out["violations"].append(_vio("c11:crash:" + re.sub(r"[^A-Za-z0-9_./:-]+", "_", site)[:80],
                                      "input %s: the compiler crashed (exit status %s) instead of succeeding or returning an error\n%s" % (tag, res["rc"], res["stderr"][-1200:]),
                                      data, {"stderr.txt": res["stderr"]}))
        return None
    if res["status"] == "ok":
        return ("ok", None, None)
    msg, blocks, problems = check_diagnostic(text, res["stderr"])
    if msg is None:
        # an error that is not a compile diagnostic (I/O, ...): legitimate only for non-text inputs
        _cnt(out, "non_compile_errors")
        out["violations"].append(_vio("c11:no-diagnostic", "input %s: exit 1 without a diagnostic naming a line:\n%s" % (tag, res["stderr"][:600]), data, {"stderr.txt": res["stderr"]}))
        return None
    _cnt(out, "diagnostics_checked")
    _cnt(out, "excerpt_blocks_checked", len(blocks))
    if problems:
        out["violations"].append(_vio("c11:malformed-diagnostic:" + re.sub(r"[0-9]+", "N", problems[0])[:60],
                                      "input %s: malformed diagnostic: %s\n--- stderr ---\n%s" % (tag, "; ".join(problems[:4]), res["stderr"][:1500]), data, {"stderr.txt": res["stderr"]}))
        return None
    primary = blocks[0]["first_line"]
    if expectation:
        parse_err = msg in ("invalid token", "unexpected end of file", "unrecognized token", "unexpected token")
        k = expectation["kind"]
        n_lines = max(len(split_lines(text)), 1)
        bad = None
        if k == "invalid-char":
            if msg == "invalid token":
                _cnt(out, "positioned_invalid_token")
                if primary != expectation["line"]:
                    bad = "an invalid character was planted on line %d but the diagnostic points at line %d" % (expectation["line"], primary)
                elif not any(expectation["line"] == ln for ln, _ in blocks[0]["lines"]):
                    bad = "the excerpt does not contain line %d where the invalid character is" % expectation["line"]
        elif k in ("truncate", "delete", "duplicate") and parse_err:
            _cnt(out, "positioned_" + k)
            if msg == "unexpected end of file":
                # reported at the end of the input: anywhere from the last token's line on
                toks = tokens(text)
                last_tok_line = line_of(text, toks[-1][0]) if toks else 1
                if primary < min(last_tok_line, n_lines):
                    bad = "end-of-file error reported on line %d, before the last token (line %d of %d)" % (primary, last_tok_line, n_lines)
            elif primary < expectation["min_line"]:
                bad = "syntax error reported on line %d although lines before %d are a valid prefix (%s)" % (primary, expectation["min_line"], k)
        if bad:
            out["violations"].append(_vio("c11:wrong-position:" + k, "input %s: %s\n--- stderr ---\n%s" % (tag, bad, res["stderr"][:1200]), data, {"stderr.txt": res["stderr"]}))
            return None
    return ("error", msg, tuple(b["first_line"] for b in blocks))


def c11_task(task):
    out = _empty_out()
    rng = random.Random(sha(str(task["seed"]), task["name"]))
    kind = task["kind"]
    if kind == "synthetic":
        res = compile_bytes(task["text"].encode("utf-8", "surrogatepass"))
        s = judge_one(out, task["name"], task["text"], res)
        if s:
            out["distinct"].append(sha(task["text"])[:16])
            _cnt(out, "synthetic_inputs")
        if not out["samples"]:
            out["samples"].append({"input": task["name"], "bytes": len(task["text"]), "status": res["status"], "stderr_head": res["stderr"][:200]})
        return out
    if kind == "invalid-utf8":
        res = compile_bytes(task["bytes"])
        out["evaluations"] += 1
        _cnt(out, "status_" + res["status"])
        if res["status"] == "crash":
            out["violations"].append(_vio("c11:crash:invalid-utf8", "input %s (not valid UTF-8): the compiler crashed, exit status %s\n%s" % (task["name"], res["rc"], res["stderr"][-800:]), task["bytes"]))
        elif res["status"] == "cpu-limit":
            out["violations"].append(_vio("c11:cpu-limit", "input %s: no termination within the CPU limit" % task["name"], task["bytes"]))
        elif res["status"] == "ok":
            out["violations"].append(_vio("c11:invalid-utf8-accepted", "input %s is not valid UTF-8 but compilation succeeded" % task["name"], task["bytes"]))
        else:
            _cnt(out, "invalid_utf8_rejected_cleanly")
            out["distinct"].append(sha(task["bytes"])[:16])
        return out
    # kind == "program": base + layout variants + positioned mutants (+ layout variants of some mutants)
    text = task["text"]
    base = compile_bytes(text.encode("utf-8"))
    sb = judge_one(out, task["name"], text, base)
    n_err = 0
    cases = [(task["name"], text, sb)]
    for tag, mt, exp in positioned_mutants(rng, text, task["n_mut"]):
        r = compile_bytes(mt.encode("utf-8", "surrogatepass"))
        sm = judge_one(out, task["name"] + ":" + tag, mt, r, exp)
        if sm:
            out["distinct"].append(sha(mt)[:16])
            if sm[0] == "error":
                n_err += 1
                if len(cases) < 1 + task["n_var_of_mut"]:
                    cases.append((task["name"] + ":" + tag, mt, sm))
    for name, t, s in cases:
        if s is None:
            continue
        for vtag, vt in layout_variants(rng, t):
            if vt == t:
                continue
            r = compile_bytes(vt.encode("utf-8", "surrogatepass"))
            sv = judge_one(out, name + ":" + vtag, vt, r)
            if sv is None:
                continue
            out["distinct"].append(sha(vt)[:16])
            _cnt(out, "layout_variant_pairs")
            if s[0] == "error":
                _cnt(out, "layout_variant_pairs_on_error_inputs")
            if vtag == "trailing-blank-lines" and "unexpected end of file" in (s[1], sv[1]):
                # the end of the input legitimately moves with trailing blank lines
                s_cmp, sv_cmp = s[:2], sv[:2]
            else:
                s_cmp, sv_cmp = s, sv
            if sv_cmp != s_cmp:
                # tabs / variants keep lines; messages and lines must be identical
                out["violations"].append(_vio("c11:layout-dependent:" + vtag,
                                              "input %s: the layout-only variant '%s' changes the outcome: base %s, variant %s\n--- variant stderr ---\n%s" % (name, vtag, s, sv, r["stderr"][:1200]),
                                              vt.encode("utf-8", "surrogatepass"), {"base.eql": t.encode("utf-8", "surrogatepass"), "stderr.txt": r["stderr"]}))
    if not out["samples"] and n_err:
        out["samples"].append({"base": task["name"], "base_status": sb[0] if sb else None, "mutants_with_diagnostics": n_err})
    return out


def inputs_for(tier):
    rng = random.Random(seed() * 7 + 11)
    q = tier == "quick"
    tasks = []
    bases = base_sources()
    from . import gen
    from .theory import emit
    n_gen = 30 if q else 400
    profs = ["mixed", "nonsurj", "diag", "eqprem", "enum", "wide"]
    for i in range(n_gen):
        th = gen.gen_theory(seed() * 100003 + 500000 + i, profs[i % len(profs)], name="th")
        if th["rules"]:
            bases.append(("gen/%d" % i, emit(th)))
    if q:
        rng.shuffle(bases)
        bases = bases[:70]
    for n, t in bases:
        tasks.append({"kind": "program", "name": n, "text": t, "seed": seed(), "n_mut": 10 if q else 40, "n_var_of_mut": 2 if q else 6})
    for n, t in synthetic_inputs(rng):
        tasks.append({"kind": "synthetic", "name": n, "text": t, "seed": seed()})
    for n, b in [("latin1", b"type A; // caf\xe9\n"), ("lone-continuation", b"type A;\n\x80\n"), ("truncated-multibyte", "type A; // 日本".encode("utf-8")[:-1]),
                 ("utf16", "type A;\n".encode("utf-16")), ("overlong", b"type A;\n\xc0\xaf\n")]:
        tasks.append({"kind": "invalid-utf8", "name": n, "bytes": b, "seed": seed()})
    return tasks


def c11(tier, replay=None):
    res = Result("C11", tier)
    res.rule = ("one evaluation = one input file compiled by the real CLI in its own process under a CPU-time limit; verdict from exit status and the "
                "parsed diagnostic (line numbers inside the file, excerpt lines equal to complete input lines, something underlined), plus position "
                "oracles for planted invalid characters / truncations / deleted or duplicated tokens and equality of outcome across layout-only "
                "variants (CRLF, mixed endings, trailing newline present/absent, trailing blank lines, tabs, non-ASCII comment text); distinct = distinct input texts with a verdict")
    res.assumptions = ["'hang' is decided as bounded progress: more than %d CPU seconds on an input of at most %d lines; a wall-clock watchdog alone is inconclusive" % (CPU_LIMIT, MAX_LINES),
                       "inputs that are not valid UTF-8 are not 'source text'; for them only crash/hang/acceptance are judged"]
    if replay:
        p = os.path.join(replay, "input.eql")
        data = open(p, "rb").read()
        out = _empty_out()
        r = compile_bytes(data)
        judge_one(out, "replay", data.decode("utf-8", "replace"), r)
        aggregate(res, [out])
        res.distinct.add("replay")
        res.distinct.add("replay2")
        res.sample({"replay": p})
        return res.finish()
    outs = pmap(c11_task, inputs_for(tier))
    aggregate(res, outs)
    return res.finish()


if __name__ == "__main__":
    import sys
    data = open(sys.argv[1], "rb").read()
    r = compile_bytes(data)
    print(r["status"], r["rc"], "cpu=%.2f" % r["cpu"])
    print(r["stderr"])
    if r["status"] == "error":
        print(check_diagnostic(data.decode("utf-8", "replace"), r["stderr"]))
