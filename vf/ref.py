"""Reference semantics (deliberately naive: no indices, no semi-naive evaluation).

Model: typed elements with a union-find, one tuple set per relation (functions as graphs).
 - satisfied(model, theory): closedness oracle (every then-atom holds for every match of the
   if-atoms preceding it; functions single-valued)
 - chase(theory, script facts): least model by naive chase, bounded
 - canon(model, labels): names every element by its least term over the caller's labels
"""
from .theory import Sig


class RefError(Exception):
    """The reference cannot interpret this input (outside its fragment)."""


class Bound(Exception):
    """A chase bound was exceeded: inconclusive for this input."""


class Model:
    def __init__(self, sig):
        self.sig = sig
        self.parent = {}  # element -> parent; element = (type, n)
        self.elems = {t: [] for t in sig.all_types}
        self.rels = {r: set() for r in sig.rels}
        self.counter = 0

    def new(self, ty):
        e = (ty, self.counter)
        self.counter += 1
        self.parent[e] = e
        self.elems[ty].append(e)
        return e

    def add_elem(self, e):
        if e not in self.parent:
            self.parent[e] = e
            self.elems[e[0]].append(e)

    def find(self, e):
        p = self.parent
        r = e
        while p[r] != r:
            r = p[r]
        while p[e] != r:
            p[e], e = r, p[e]
        return r

    def union(self, a, b):
        a, b = self.find(a), self.find(b)
        if a == b:
            return False
        # deterministic: smaller counter survives
        if b < a:
            a, b = b, a
        self.parent[b] = a
        return True

    def roots(self, ty):
        return [e for e in self.elems[ty] if self.parent[e] == e]

    def canonicalize(self):
        """Rewrite all tuples to roots and merge results of functions on equal arguments, to a
        fixed point. Returns number of merges performed."""
        merges = 0
        while True:
            changed = False
            for r, rows in self.rels.items():
                new = set(tuple(self.find(x) for x in t) for t in rows)
                self.rels[r] = new
            for f in self.sig.funcs:
                seen = {}
                for t in self.rels[f]:
                    k = t[:-1]
                    if k in seen:
                        if self.union(seen[k], t[-1]):
                            changed = True
                            merges += 1
                    else:
                        seen[k] = t[-1]
            if not changed:
                return merges

    def eval_func(self, f, args):
        args = tuple(self.find(a) for a in args)
        best = None
        for t in self.rels[f]:
            if tuple(self.find(x) for x in t[:-1]) == args:
                v = self.find(t[-1])
                if best is None or v < best:
                    best = v
        return best

    def size(self):
        return sum(len(self.roots(t)) for t in self.sig.all_types)


# ---------------------------------------------------------------------------------------------
# matching


class _Fresh:
    def __init__(self):
        self.n = 0

    def __call__(self):
        self.n += 1
        return "$%d" % self.n


def infer_types(sig, stmts, vt=None):
    """Variable name -> type for a rule body (signature-driven propagation to a fixed point)."""
    vt = {} if vt is None else vt

    def tterm(t, expect):
        ch = False
        if t["k"] == "var":
            if expect is not None and t["n"] not in vt:
                vt[t["n"]] = expect
                ch = True
            return vt.get(t["n"]), ch
        if t["k"] == "wild":
            return expect, False
        if t["f"] not in sig.funcs:
            raise RefError("unknown function " + t["f"])
        at, res = sig.funcs[t["f"]]
        for a, ty in zip(t["args"], at):
            ch |= tterm(a, ty)[1]
        return res, ch

    def tatom(a):
        k = a["k"]
        ch = False
        if k == "pred":
            if a["p"] not in sig.preds:
                raise RefError("unknown predicate " + a["p"])
            for t, ty in zip(a["args"], sig.preds[a["p"]]):
                ch |= tterm(t, ty)[1]
        elif k == "eq":
            tl, c1 = tterm(a["l"], None)
            tr, c2 = tterm(a["r"], None)
            ch |= c1 | c2
            if tl is not None:
                ch |= tterm(a["r"], tl)[1]
            if tr is not None:
                ch |= tterm(a["l"], tr)[1]
        elif k == "def":
            ty, c = tterm(a["t"], None)
            ch |= c
            if a.get("v") and ty is not None and a["v"] not in vt:
                vt[a["v"]] = ty
                ch = True
        elif k == "type":
            if a["v"] not in vt:
                vt[a["v"]] = a["ty"]
                ch = True
        return ch

    def walk(stmts):
        ch = False
        for s in stmts:
            if s["k"] in ("if", "then"):
                ch |= tatom(s["atom"])
            elif s["k"] == "branch":
                for b in s["blocks"]:
                    ch |= walk(b)
            elif s["k"] == "match":
                for c in s["cases"]:
                    if c["ctor"] in sig.funcs:
                        at, res = sig.funcs[c["ctor"]]
                        ch |= tterm(s["term"], res)[1]
                        for v, ty in zip(c["vars"], at):
                            if v != "_" and v not in vt:
                                vt[v] = ty
                                ch = True
                    ch |= walk(c["body"])
        return ch

    for _ in range(20):
        if not walk(stmts):
            break
    return vt


def flatten_term(t, fresh, out):
    """Returns a variable name denoting t; appends graph atoms to out."""
    if t["k"] == "var":
        return t["n"]
    if t["k"] == "wild":
        return fresh()
    args = [flatten_term(a, fresh, out) for a in t["args"]]
    r = fresh()
    out.append(("rel", t["f"], args + [r]))
    return r


def flatten_if_atom(a, fresh, vt=None):
    out = []
    k = a["k"]
    if k == "pred":
        args = [flatten_term(t, fresh, out) for t in a["args"]]
        out.append(("rel", a["p"], args))
    elif k == "eq":
        l = flatten_term(a["l"], fresh, out)
        r = flatten_term(a["r"], fresh, out)
        ty = None
        if vt is not None:
            ty = vt.get(l) or vt.get(r)
        out.append(("eq", l, r, ty))
    elif k == "def":
        flatten_term(a["t"], fresh, out)
    elif k == "type":
        out.append(("type", a["ty"], a["v"]))
    else:
        raise RefError("if-atom kind " + k)
    return out


def solve(m, flat, env):
    """All extensions of env satisfying the flat atoms (in the given order)."""
    if not flat:
        yield env
        return
    a = flat[0]
    rest = flat[1:]
    if a[0] == "rel":
        _, r, vs = a
        if r not in m.rels:
            raise RefError("unknown relation " + r)
        for t in m.rels[r]:
            e2 = None
            ok = True
            for v, x in zip(vs, t):
                x = m.find(x)
                cur = env.get(v) if e2 is None else e2.get(v)
                if cur is None:
                    if e2 is None:
                        e2 = dict(env)
                    e2[v] = x
                elif m.find(cur) != x:
                    ok = False
                    break
            if ok:
                yield from solve(m, rest, e2 if e2 is not None else env)
    elif a[0] == "eq":
        _, l, r, ety = a
        lv, rv = env.get(l), env.get(r)
        if lv is None and rv is None:
            if ety is None:
                raise RefError("equality between two unbound variables of unknown type")
            for e in m.roots(ety):
                e2 = dict(env)
                e2[l] = e
                e2[r] = e
                yield from solve(m, rest, e2)
            return
        if lv is None:
            e2 = dict(env)
            e2[l] = rv
            yield from solve(m, rest, e2)
        elif rv is None:
            e2 = dict(env)
            e2[r] = lv
            yield from solve(m, rest, e2)
        elif m.find(lv) == m.find(rv):
            yield from solve(m, rest, env)
    elif a[0] == "type":
        _, ty, v = a
        cur = env.get(v)
        if cur is not None:
            if cur[0] == ty:
                yield from solve(m, rest, env)
        else:
            for e in m.roots(ty):
                e2 = dict(env)
                e2[v] = e
                yield from solve(m, rest, e2)
    else:
        raise RefError(a[0])


def eval_term(m, t, env):
    if t["k"] == "var":
        v = env.get(t["n"])
        return None if v is None else m.find(v)
    if t["k"] == "wild":
        raise RefError("wildcard in then-atom")
    args = []
    for a in t["args"]:
        x = eval_term(m, a, env)
        if x is None:
            return None
        args.append(x)
    return m.eval_func(t["f"], args)


def then_holds(m, a, env):
    """Returns (holds, env') for a then-atom under env in model m."""
    k = a["k"]
    if k == "pred":
        args = [eval_term(m, t, env) for t in a["args"]]
        if any(x is None for x in args):
            return False, env
        return tuple(args) in m.rels[a["p"]], env
    if k == "eq":
        l, r = eval_term(m, a["l"], env), eval_term(m, a["r"], env)
        return (l is not None and r is not None and l == r), env
    if k == "def":
        v = eval_term(m, a["t"], env)
        if v is None:
            return False, env
        if a.get("v"):
            env = dict(env)
            env[a["v"]] = v
        return True, env
    raise RefError("then-atom kind " + k)


def run_rule(m, stmts, env, on_then, fresh, sig, cont=()):
    """Walk the statement list; on_then(atom, env) -> env' or None (stop this path).

    Control-flow semantics as documented in eqlog.eql ("Control flow graph"): a branch/match
    statement forks into its blocks and control flows out of the end of *every* block into the
    statement that follows the branch; variables introduced inside a block are not visible after
    it. An empty block passes control straight through. `cont` is the stack of pending
    continuations (statements, names visible there)."""
    if not stmts:
        if cont:
            (rest, visible), tail = cont[0], cont[1:]
            env2 = {k: v for k, v in env.items() if k in visible}
            run_rule(m, rest, env2, on_then, fresh, sig, tail)
        return
    s = stmts[0]
    rest = stmts[1:]
    if s["k"] == "if":
        flat = flatten_if_atom(s["atom"], fresh, getattr(fresh, "vt", None))
        for e2 in list(solve(m, flat, env)):
            run_rule(m, rest, e2, on_then, fresh, sig, cont)
    elif s["k"] == "then":
        e2 = on_then(s["atom"], env)
        if e2 is not None:
            run_rule(m, rest, e2, on_then, fresh, sig, cont)
    elif s["k"] == "branch":
        k2 = ((rest, frozenset(env.keys())),) + tuple(cont)
        for b in s["blocks"]:
            run_rule(m, b, env, on_then, fresh, sig, k2)
    elif s["k"] == "match":
        k2 = ((rest, frozenset(env.keys())),) + tuple(cont)
        for c in s["cases"]:
            pat = {"k": "app", "f": c["ctor"], "args": [({"k": "wild"} if v == "_" else {"k": "var", "n": v}) for v in c["vars"]]}
            flat = flatten_if_atom({"k": "eq", "l": s["term"], "r": pat}, fresh, getattr(fresh, "vt", None))
            for e2 in list(solve(m, flat, env)):
                run_rule(m, c["body"], e2, on_then, fresh, sig, k2)
    else:
        raise RefError(s["k"])


def _show_env(m, env):
    return {k: "%s#%d" % (m.find(v)[0], m.find(v)[1]) for k, v in sorted(env.items()) if not k.startswith("$")}


def satisfied(m, th, limit=5):
    """Closedness oracle. Returns a list of violation descriptions (empty = closed)."""
    from .theory import atom_str
    sig = m.sig
    out = []
    # canonical + functional
    for f in sig.funcs:
        seen = {}
        for t in m.rels[f]:
            k = tuple(m.find(x) for x in t[:-1])
            v = m.find(t[-1])
            if k in seen and seen[k] != v:
                out.append("function %s is not single-valued: %s(%s) = %s and = %s" % (
                    f, f, ", ".join("%s#%d" % x for x in k), "%s#%d" % seen[k], "%s#%d" % v))
                if len(out) >= limit:
                    return out
            seen.setdefault(k, v)
    for rule in th.get("rules", []):
        fresh = _Fresh()
        fresh.vt = infer_types(sig, rule["body"])

        def on_then(atom, env, rule=rule):
            ok, e2 = then_holds(m, atom, env)
            if not ok:
                if len(out) < limit:
                    out.append("rule %s: premise matched with %s but `then %s` does not hold" % (
                        rule.get("name") or "<anonymous>", _show_env(m, env), atom_str(atom)))
                return None
            return e2

        run_rule(m, rule["body"], {}, on_then, fresh, sig)
        if len(out) >= limit:
            break
    return out


# ---------------------------------------------------------------------------------------------
# chase


def chase(th, m, max_rounds=60, max_elems=60, max_actions=4000):
    """Close m (in place) under the rules of th: surjective conclusions to a fixed point first,
    then one batch of non-surjective definitions, repeat. Raises Bound when limits are hit."""
    sig = m.sig
    m.canonicalize()
    actions_total = 0
    for _round in range(max_rounds):
        # surjective saturation
        for _inner in range(max_rounds * 4):
            pend_tuples = []
            pend_eqs = []
            pend_defs = []
            for rule in th.get("rules", []):
                fresh = _Fresh()
                fresh.vt = infer_types(sig, rule["body"])

                def on_then(atom, env):
                    k = atom["k"]
                    if k == "pred":
                        args = [eval_term(m, t, env) for t in atom["args"]]
                        if any(x is None for x in args):
                            # not yet defined (waits for a pending definition): stop this path
                            return None
                        t = tuple(args)
                        if t not in m.rels[atom["p"]]:
                            pend_tuples.append((atom["p"], t))
                        return env
                    if k == "eq":
                        l, r = eval_term(m, atom["l"], env), eval_term(m, atom["r"], env)
                        if l is not None and r is not None:
                            if l != r:
                                pend_eqs.append((l, r))
                            return env
                        # graph insertion: exactly one side is an application with defined arguments
                        for side, other in ((atom["l"], r), (atom["r"], l)):
                            if other is not None and side["k"] == "app":
                                args = [eval_term(m, a, env) for a in side["args"]]
                                if all(x is not None for x in args):
                                    pend_tuples.append((side["f"], tuple(args) + (other,)))
                                    return None  # continue once applied (next round)
                        return None
                    if k == "def":
                        v = eval_term(m, atom["t"], env)
                        if v is None:
                            t = atom["t"]
                            if t["k"] != "app":
                                raise RefError("`!` on a non-application")
                            # innermost undefined application whose arguments are defined
                            def first_undefined(t):
                                args = []
                                for a in t["args"]:
                                    x = eval_term(m, a, env)
                                    if x is None:
                                        if a["k"] != "app":
                                            raise RefError("unbound variable under `!`")
                                        return first_undefined(a)
                                    args.append(x)
                                return (t["f"], tuple(args))
                            pend_defs.append(first_undefined(t))
                            return None
                        if atom.get("v"):
                            env = dict(env)
                            env[atom["v"]] = v
                        return env
                    raise RefError(k)

                run_rule(m, rule["body"], {}, on_then, fresh, sig)
            progress = False
            for r, t in pend_tuples:
                t = tuple(m.find(x) for x in t)
                if t not in m.rels[r]:
                    m.rels[r].add(t)
                    progress = True
            for a, b in pend_eqs:
                if m.union(a, b):
                    progress = True
            actions_total += len(pend_tuples) + len(pend_eqs)
            if m.canonicalize():
                progress = True
            if actions_total > max_actions:
                raise Bound("actions")
            if not progress:
                break
        else:
            raise Bound("surjective saturation rounds")
        # non-surjective definitions, only where still undefined
        made = 0
        for f, args in sorted(set(pend_defs)):
            if m.eval_func(f, args) is None:
                res_ty = sig.funcs[f][1]
                e = m.new(res_ty)
                m.rels[f].add(tuple(m.find(a) for a in args) + (e,))
                made += 1
                if m.size() > max_elems:
                    raise Bound("elements")
        if made == 0:
            return m
    raise Bound("rounds")


# ---------------------------------------------------------------------------------------------
# canonical naming


def canon(m, labels):
    """labels: {label string: element}. Returns a canonical, order-independent description of
    the model up to isomorphism fixing the labelled elements."""
    names = {}

    def better(a, b):
        return b is None or a < b

    for lab, e in labels.items():
        r = m.find(e)
        cand = (1, ("L", lab))
        if better(cand, names.get(r)):
            names[r] = cand
    changed = True
    while changed:
        changed = False
        for f in sorted(m.sig.funcs):
            for t in m.rels[f]:
                args = [names.get(m.find(x)) for x in t[:-1]]
                if any(a is None for a in args):
                    continue
                cand = (1 + sum(a[0] for a in args), ("A", f, tuple(a[1] for a in args)))
                r = m.find(t[-1])
                if better(cand, names.get(r)):
                    names[r] = cand
                    changed = True

    def nm(e):
        n = names.get(m.find(e))
        return show_name(n[1]) if n is not None else "?%s" % e[0]

    out = {"elements": {}, "rels": {}, "label_classes": {}, "unnamed": 0}
    for ty in m.sig.all_types:
        rs = m.roots(ty)
        out["elements"][ty] = sorted(nm(e) for e in rs)
        out["unnamed"] += sum(1 for e in rs if names.get(e) is None)
        groups = {}
        for lab, e in labels.items():
            if e[0] == ty:
                groups.setdefault(m.find(e), []).append(lab)
        out["label_classes"][ty] = sorted(sorted(g) for g in groups.values())
    for r in sorted(m.rels):
        out["rels"][r] = sorted([nm(x) for x in t] for t in set(tuple(m.find(x) for x in t) for t in m.rels[r]))
    return out


def names(m, labels):
    """root element -> least term structure over the labels (None for unnamed elements)."""
    nm = {}
    for lab, e in labels.items():
        r = m.find(e)
        cand = (1, ("L", lab))
        if nm.get(r) is None or cand < nm[r]:
            nm[r] = cand
    changed = True
    while changed:
        changed = False
        for f in sorted(m.sig.funcs):
            for t in m.rels[f]:
                args = [nm.get(m.find(x)) for x in t[:-1]]
                if any(a is None for a in args):
                    continue
                cand = (1 + sum(a[0] for a in args), ("A", f, tuple(a[1] for a in args)))
                r = m.find(t[-1])
                if nm.get(r) is None or cand < nm[r]:
                    nm[r] = cand
                    changed = True
    return {k: v[1] for k, v in nm.items()}


def eval_name(m, labels, n):
    """Evaluate a term structure produced by names() in another model; None if undefined."""
    if n[0] == "L":
        e = labels.get(n[1])
        return None if e is None else m.find(e)
    args = []
    for a in n[2]:
        x = eval_name(m, labels, a)
        if x is None:
            return None
        args.append(x)
    return m.eval_func(n[1], args)


def embeds(s, slabels, f, flabels, limit=5):
    """Is every element, tuple and equality of model s present in model f (elements identified
    through their least terms over the caller's labels)? Returns a list of problems."""
    out = []
    nm = names(s, slabels)
    img = {}
    for ty in s.sig.all_types:
        for e in s.roots(ty):
            n = nm.get(e)
            if n is None:
                out.append("element %s#%d of the stopped state is not denoted by any term over the caller's elements" % e)
                continue
            x = eval_name(f, flabels, n)
            if x is None:
                out.append("element %s of the stopped state does not exist in the closed model" % show_name(n))
            img[e] = x
    for r, rows in s.rels.items():
        frows = set(tuple(f.find(x) for x in t) for t in f.rels[r])
        for t in rows:
            it = tuple(img.get(s.find(x)) for x in t)
            if any(x is None for x in it):
                continue
            if it not in frows:
                out.append("tuple %s(%s) of the stopped state does not hold in the closed model" % (r, ", ".join(show_name(nm[s.find(x)]) for x in t)))
            if len(out) >= limit:
                return out
    for la, ea in slabels.items():
        for lb, eb in slabels.items():
            if la < lb and ea[0] == eb[0] and s.find(ea) == s.find(eb):
                if la in flabels and lb in flabels and f.find(flabels[la]) != f.find(flabels[lb]):
                    out.append("caller elements %s and %s are equal in the stopped state but not in the closed model" % (la, lb))
    return out[:limit]


def show_name(n):
    if n[0] == "L":
        return n[1]
    return "%s(%s)" % (n[1], ",".join(show_name(a) for a in n[2]))


def canon_diff(a, b, limit=6):
    """Human-readable differences between two canon() results (a = observed, b = expected)."""
    out = []
    for ty in sorted(set(a["elements"]) | set(b["elements"])):
        ea, eb = a["elements"].get(ty, []), b["elements"].get(ty, [])
        if ea != eb:
            out.append("elements of %s: observed %s, expected %s" % (ty, ea, eb))
        la, lb = a["label_classes"].get(ty, []), b["label_classes"].get(ty, [])
        if la != lb:
            out.append("equalities among caller elements of %s: observed classes %s, expected %s" % (ty, la, lb))
    for r in sorted(set(a["rels"]) | set(b["rels"])):
        ra = set(map(tuple, a["rels"].get(r, [])))
        rb = set(map(tuple, b["rels"].get(r, [])))
        if ra != rb:
            extra = sorted(ra - rb)[:4]
            missing = sorted(rb - ra)[:4]
            out.append("relation %s: extra tuples %s, missing tuples %s" % (r, extra, missing))
        if len(out) >= limit:
            break
    if a.get("unnamed") or b.get("unnamed"):
        out.append("unnamed (junk) elements: observed %s, expected %s" % (a.get("unnamed"), b.get("unnamed")))
    return out
