"""Recursive-descent parser for the eqlog fragment the reference semantics covers
(type/pred/func/enum/rule; if/then/branch/match; terms; `:=`). Theories outside the fragment
(model declarations, member expressions, Mor/dom/cod/@) raise Unsupported."""
import glob
import os
import re

from .util import REPO, VERIF, MIRROR


class Unsupported(Exception):
    pass


TOK = re.compile(r"\s*(?:(//[^\n]*)|([A-Za-z][A-Za-z0-9'_]*)|(:=|->|=>|[;,(){}=!:_@.]))")


def tokenize(text):
    pos = 0
    out = []
    n = len(text)
    while pos < n:
        m = TOK.match(text, pos)
        if not m:
            if text[pos:].strip() == "":
                break
            raise Unsupported("cannot tokenize at %r" % text[pos:pos + 20])
        pos = m.end()
        if m.group(1):
            continue
        out.append(m.group(2) or m.group(3))
    return out


class P:
    def __init__(self, toks):
        self.t = toks
        self.i = 0

    def peek(self, k=0):
        return self.t[self.i + k] if self.i + k < len(self.t) else None

    def next(self):
        x = self.peek()
        self.i += 1
        return x

    def expect(self, x):
        y = self.next()
        if y != x:
            raise Unsupported("expected %r, got %r at token %d" % (x, y, self.i))

    def ident(self):
        x = self.next()
        if x is None or not re.match(r"^[A-Za-z]", x):
            raise Unsupported("expected identifier, got %r" % x)
        return x

    def type_expr(self):
        x = self.ident()
        if x == "Mor" or self.peek() == ".":
            raise Unsupported("member/morphism type")
        return x

    def arg_decls(self):
        self.expect("(")
        out = []
        while self.peek() != ")":
            if self.peek(1) == ":":
                self.next()
                self.next()
            out.append(self.type_expr())
            if self.peek() == ",":
                self.next()
        self.expect(")")
        return out

    def term(self):
        x = self.next()
        if x == "_":
            t = {"k": "wild"}
        elif x in ("dom", "cod") and self.peek() == "(":
            raise Unsupported("dom/cod term")
        elif x is not None and re.match(r"^[A-Za-z]", x):
            if self.peek() == "(":
                self.next()
                args = []
                while self.peek() != ")":
                    args.append(self.term())
                    if self.peek() == ",":
                        self.next()
                self.expect(")")
                t = {"k": "app", "f": x, "args": args}
            else:
                t = {"k": "var", "n": x}
        else:
            raise Unsupported("bad term start %r" % x)
        if self.peek() in ("@", "."):
            raise Unsupported("morphism application / member expression")
        return t

    def atom(self, then):
        t = self.term()
        nx = self.peek()
        if nx == "=":
            self.next()
            r = self.term()
            return {"k": "eq", "l": t, "r": r}
        if nx == "!":
            self.next()
            return {"k": "def", "t": t}
        if nx == ":=":
            self.next()
            r = self.term()
            self.expect("!")
            if t["k"] != "var":
                raise Unsupported(":= with non-variable")
            return {"k": "def", "t": r, "v": t["n"]}
        if nx == ":":
            self.next()
            ty = self.type_expr()
            if t["k"] != "var":
                raise Unsupported("type atom on non-variable")
            return {"k": "type", "v": t["n"], "ty": ty}
        if t["k"] == "app":
            return {"k": "pred", "p": t["f"], "args": t["args"]}
        raise Unsupported("bad atom")

    def block(self):
        self.expect("{")
        out = []
        while self.peek() != "}":
            out.append(self.stmt())
        self.expect("}")
        return out

    def stmt(self):
        x = self.next()
        if x == "if":
            a = self.atom(False)
            self.expect(";")
            return {"k": "if", "atom": a}
        if x == "then":
            a = self.atom(True)
            self.expect(";")
            return {"k": "then", "atom": a}
        if x == "branch":
            blocks = [self.block()]
            while self.peek() == "along":
                self.next()
                blocks.append(self.block())
            return {"k": "branch", "blocks": blocks}
        if x == "match":
            t = self.term()
            self.expect("{")
            cases = []
            while self.peek() != "}":
                pat = self.term()
                self.expect("=>")
                body = self.block()
                if pat["k"] != "app":
                    raise Unsupported("match pattern is not a constructor application")
                vs = []
                for a in pat["args"]:
                    if a["k"] == "var":
                        vs.append(a["n"])
                    elif a["k"] == "wild":
                        vs.append("_")
                    else:
                        raise Unsupported("nested pattern")
                cases.append({"ctor": pat["f"], "vars": vs, "body": body})
            self.expect("}")
            return {"k": "match", "term": t, "cases": cases}
        raise Unsupported("bad statement start %r" % x)

    def module(self, name):
        th = {"name": name, "types": [], "enums": [], "preds": [], "funcs": [], "rules": []}
        while self.peek() is not None:
            x = self.next()
            if x == "type":
                th["types"].append(self.ident())
                self.expect(";")
            elif x == "pred":
                n = self.ident()
                th["preds"].append({"name": n, "args": self.arg_decls()})
                self.expect(";")
            elif x == "func":
                n = self.ident()
                a = self.arg_decls()
                self.expect("->")
                r = self.type_expr()
                self.expect(";")
                th["funcs"].append({"name": n, "args": a, "res": r})
            elif x == "enum":
                n = self.ident()
                self.expect("{")
                ctors = []
                while self.peek() != "}":
                    cn = self.ident()
                    ctors.append({"name": cn, "args": self.arg_decls()})
                    if self.peek() == ",":
                        self.next()
                self.expect("}")
                th["enums"].append({"name": n, "ctors": ctors})
            elif x == "rule":
                n = None
                if self.peek() != "{":
                    n = self.ident()
                th["rules"].append({"name": n, "body": self.block()})
            elif x == "model":
                raise Unsupported("model declaration")
            else:
                raise Unsupported("bad declaration start %r" % x)
        return th


def parse(text, name):
    th = P(tokenize(text)).module(name)
    th["text"] = text
    # the generated API cannot express functions into enum types being *defined*, etc.; nothing
    # else to normalise. Order types: plain types first, enums keep their own list.
    return th


def load(path):
    with open(path) as f:
        text = f.read()
    name = os.path.splitext(os.path.basename(path))[0]
    th = parse(text, name)
    th["origin"] = path
    return th


def corpus_files():
    """Theories of eqlog-test-eval (from the mirror of /repo) + /verif/theories, restricted to
    those inside the fragment."""
    out = []
    for d in (os.path.join(MIRROR, "eqlog-test-eval", "src"), os.path.join(VERIF, "theories")):
        for p in sorted(glob.glob(os.path.join(d, "*.eql"))):
            try:
                load(p)
            except Unsupported:
                continue
            except Exception:
                continue
            out.append(p)
    return out
