"""Shared machinery of the model-level checks: theory pools, dump -> reference model, label
tables, replay writing, process pool."""
import json
import multiprocessing as mp
import os
import random
import traceback

from . import driver, gen, ref
from .theory import Sig, emit, rule_features
from .util import NCPU, VERIF, Inconclusive, seed


def model_from_dump(sig, pub):
    """Reference Model holding exactly the dumped structure: one element per allocated id,
    unified per the dumped root table; tuples as dumped."""
    m = ref.Model(sig)
    for ty in sig.all_types:
        roots = pub["roots"].get(ty, [])
        for i in range(len(roots)):
            m.add_elem((ty, i))
        for i, r in enumerate(roots):
            if r != i:
                m.parent[(ty, i)] = (ty, r)
    for r, rows in pub["rels"].items():
        cols = sig.rels[r]
        for row in rows:
            m.rels[r].add(tuple((t, x) for t, x in zip(cols, row)))
    return m


def attach_tokens(hists, script_text):
    lines = script_text.splitlines()
    for h in hists:
        for ev in h["events"]:
            if "i" in ev and ev.get("e") == "op":
                ev["toks"] = lines[ev["i"]].split()


def labels_of(sig, events):
    """label -> (type, id) from the creating ops' return values."""
    labs = {}
    for ev in events:
        if ev.get("e") != "op" or "ret" not in ev or "toks" not in ev:
            continue
        t = ev["toks"]
        if t[0] == "new":
            labs[t[2]] = (t[1], ev["ret"])
        elif t[0] == "newenum" and not ev.get("skipped"):
            labs[t[-1]] = (t[1], ev["ret"])
        elif t[0] == "def" and not ev.get("skipped"):
            labs[t[-1]] = (sig.funcs[t[1]][1], ev["ret"])
    return labs


def reference_input(sig, ops):
    """Replay the asserting ops of a script on a fresh reference Model (no closing).
    Returns (model, labels)."""
    m = ref.Model(sig)
    labs = {}
    for op in ops:
        k = op[0]
        if k == "new":
            labs[op[2]] = m.new(op[1])
            if len(op) > 3:
                # element of a member type created inside model op[3]: membership holds by construction
                mt = sig.th.get("member_types", {}).get(op[1])
                if mt and op[3] in labs:
                    m.rels[mt[1]].add((labs[op[3]], labs[op[2]]))
        elif k == "newenum":
            args = op[3:-1]
            if any(a not in labs for a in args):
                continue
            e = m.new(op[1])
            m.rels[op[2]].add(tuple(labs[a] for a in args) + (e,))
            labs[op[-1]] = e
        elif k == "def":
            args = op[2:-1]
            if any(a not in labs for a in args):
                continue
            e = m.new(sig.funcs[op[1]][1])
            m.rels[op[1]].add(tuple(labs[a] for a in args) + (e,))
            labs[op[-1]] = e
        elif k == "ins":
            args = op[2:]
            if any(a not in labs for a in args):
                continue
            m.rels[op[1]].add(tuple(labs[a] for a in args))
        elif k == "eq":
            if op[2] in labs and op[3] in labs:
                m.union(labs[op[2]], labs[op[3]])
    return m, labs


def theory_pool(tier, n_quick, n_thorough, profiles, base=0):
    """(seed, profile) pairs for generated theories, deterministic in VERIF_SEED."""
    n = n_quick if tier == "quick" else n_thorough
    s0 = seed() * 100003 + base
    return [(s0 + i, profiles[i % len(profiles)]) for i in range(n)]


def write_case(dirpath, th, script, extra):
    os.makedirs(dirpath, exist_ok=True)
    with open(os.path.join(dirpath, th["name"] + ".eql"), "w") as f:
        f.write(th.get("text") or emit(th))
    with open(os.path.join(dirpath, "theory.ast.json"), "w") as f:
        json.dump({k: v for k, v in th.items() if k != "text"}, f, indent=1)
    with open(os.path.join(dirpath, "script.txt"), "w") as f:
        f.write(script)
    for k, v in extra.items():
        with open(os.path.join(dirpath, k), "w") as f:
            f.write(v if isinstance(v, str) else json.dumps(v, indent=1))


def _wrap(args):
    fn, task = args
    try:
        return fn(task)
    except Exception:
        return {"harness_error": traceback.format_exc()[-3000:], "task": repr(task)[:300]}


def pmap(fn, tasks, procs=None):
    procs = procs or NCPU
    if procs <= 1 or len(tasks) <= 1:
        return [_wrap((fn, t)) for t in tasks]
    with mp.Pool(procs) as pool:
        return pool.map(_wrap, [(fn, t) for t in tasks], chunksize=1)


def theory_feature_hist(th):
    feats = {}
    for r in th.get("rules", []):
        for f in rule_features(r):
            feats[f] = feats.get(f, 0) + 1
    return feats
