"""vf: runtime-monitoring checks for eqlog.  python3 -m vf build | check <ID> [--tier quick|thorough]"""
import argparse
import os
import sys
import traceback

from . import build as _build
from .util import Inconclusive


def _checks():
    from . import checks_rt
    table = {
        "C08": checks_rt.c08,
        "C14": checks_rt.c14,
        "C18": checks_rt.c18,
    }
    try:
        from . import checks_model
        table.update(checks_model.TABLE)
    except ImportError:
        pass
    try:
        from . import checks_cli
        table.update(checks_cli.TABLE)
    except ImportError:
        pass
    from . import models
    table.update(models.TABLE)
    return table


def _prune_cache():
    """Compiled theories are cached per compiler build; thorough runs add tens of GB. When the
    disk runs low the cache of this work area is dropped (everything in it can be rebuilt)."""
    import shutil
    from .util import WORK
    try:
        free = shutil.disk_usage(WORK).free
    except OSError:
        return
    cache = os.path.join(WORK, "cache")
    if free < 25 * 10 ** 9 and os.path.isdir(cache):
        tmp = cache + ".old.%d" % os.getpid()
        try:
            os.rename(cache, tmp)
        except OSError:
            return
        shutil.rmtree(tmp, ignore_errors=True)


def main():
    ap = argparse.ArgumentParser(prog="vf")
    sub = ap.add_subparsers(dest="cmd")
    sub.add_parser("build")
    sub.add_parser("setup")
    c = sub.add_parser("check")
    c.add_argument("pid")
    c.add_argument("--tier", default=os.environ.get("VERIF_TIER", "quick"), choices=["quick", "thorough"])
    c.add_argument("--replay", default=None)
    a = ap.parse_args()
    if a.cmd in ("build", "setup"):
        try:
            _build.build(verbose=True)
        except RuntimeError as e:
            print("BUILD FAILED\n" + str(e))
            return 2
        if a.cmd == "setup":
            try:
                from . import checks_model
                checks_model.setup()
            except ImportError:
                pass
        return 0
    if a.cmd == "check":
        table = _checks()
        if a.pid not in table:
            print("unknown property " + a.pid)
            return 2
        try:
            _build.build(verbose=False)
        except RuntimeError as e:
            print("INCONCLUSIVE property=%s the tree does not build:\n%s" % (a.pid, e))
            return 2
        _prune_cache()
        try:
            if a.replay:
                return table[a.pid](a.tier, replay=a.replay)
            return table[a.pid](a.tier)
        except Inconclusive as e:
            print("INCONCLUSIVE property=%s %s" % (a.pid, e))
            return 2
        except Exception:
            traceback.print_exc()
            print("INCONCLUSIVE property=%s harness error" % a.pid)
            return 2
    ap.print_help()
    return 2


if __name__ == "__main__":
    sys.exit(main())
