"""Common paths, process helpers, evidence writer, known-findings handling."""
import fcntl
import hashlib
import json
import os
import subprocess
import sys
import time

VERIF = os.path.dirname(os.path.dirname(os.path.abspath(__file__)))
REPO = os.environ.get("VF_REPO", "/repo")
# a separate work area (mirror, target, caches) for runs against a scratch copy of the
# repository (seeded-defect tests), so that they never disturb checks of /repo itself
WORK = os.path.join(VERIF, ".work" if os.path.realpath(REPO) == "/repo" else ".work-alt")
MIRROR = os.path.join(WORK, "mirror")
TARGET = os.path.join(WORK, "target")
RT_TARGET = os.path.join(WORK, "rt-target")
EVIDENCE = os.path.join(VERIF, "evidence")
REPLAYS = os.path.join(VERIF, "replays" if os.path.realpath(REPO) == "/repo" else "replays-alt")
EVIDENCE = os.path.join(VERIF, "evidence" if os.path.realpath(REPO) == "/repo" else ".work-alt/evidence")
EQLOG_BIN = os.path.join(TARGET, "debug", "eqlog")
RT_BIN = os.path.join(RT_TARGET, "release", "vf-rt")
RTLIB_DIR = os.path.join(WORK, "rtlib")
NCPU = int(os.environ.get("VF_JOBS", os.cpu_count() or 4))

OFFLINE_ENV = {
    "CARGO_NET_OFFLINE": "true",
    "GOPROXY": "off",
    "PIP_NO_INDEX": "1",
}


def env_with(extra=None):
    e = dict(os.environ)
    e.update(OFFLINE_ENV)
    if extra:
        e.update(extra)
    return e


def seed():
    try:
        return int(os.environ.get("VERIF_SEED", "1"))
    except ValueError:
        return 1


def run(cmd, cwd=None, env=None, timeout=None, input=None, check=False):
    """Run a command, capture output. Returns (rc, stdout, stderr); rc=None on timeout."""
    try:
        p = subprocess.run(
            cmd,
            cwd=cwd,
            env=env if env is not None else env_with(),
            stdout=subprocess.PIPE,
            stderr=subprocess.PIPE,
            timeout=timeout,
            input=input,
        )
    except subprocess.TimeoutExpired as e:
        return None, (e.stdout or b"").decode("utf-8", "replace"), (e.stderr or b"").decode("utf-8", "replace")
    out = p.stdout.decode("utf-8", "replace")
    err = p.stderr.decode("utf-8", "replace")
    if check and p.returncode != 0:
        raise RuntimeError("command failed (%s): %s\n%s\n%s" % (p.returncode, cmd, out[-4000:], err[-4000:]))
    return p.returncode, out, err


class Lock:
    def __init__(self, name):
        os.makedirs(WORK, exist_ok=True)
        self.path = os.path.join(WORK, name + ".lock")

    def __enter__(self):
        self.f = open(self.path, "w")
        fcntl.flock(self.f, fcntl.LOCK_EX)
        return self

    def __exit__(self, *a):
        fcntl.flock(self.f, fcntl.LOCK_UN)
        self.f.close()


def sha(*parts):
    h = hashlib.sha256()
    for p in parts:
        if isinstance(p, str):
            p = p.encode()
        h.update(p)
        h.update(b"\0")
    return h.hexdigest()


def tree_hash(root, exclude=(".git", "target")):
    h = hashlib.sha256()
    for d, dirs, files in os.walk(root):
        dirs[:] = sorted(x for x in dirs if x not in exclude)
        for f in sorted(files):
            p = os.path.join(d, f)
            if os.path.islink(p):
                continue
            h.update(os.path.relpath(p, root).encode())
            h.update(b"\0")
            try:
                with open(p, "rb") as fh:
                    h.update(hashlib.sha256(fh.read()).digest())
            except OSError:
                pass
    return h.hexdigest()


# ---------------------------------------------------------------------------------------------
# verdicts


class Inconclusive(Exception):
    pass


class Result:
    """Accumulates what one check run observed."""

    def __init__(self, pid, tier, level="exploration"):
        self.pid = pid
        self.tier = tier
        self.level = level
        self.t0 = time.time()
        self.evaluations = 0
        self.distinct = set()
        self.samples = []
        self.violations = []  # (key, what, replay)
        self.known = []
        self.inconclusive = {}
        self.cov = {}
        self.rule = ""
        self.assumptions = []

    def count(self, key, n=1):
        self.cov[key] = self.cov.get(key, 0) + n

    def maxi(self, key, v):
        if v > self.cov.get(key, 0):
            self.cov[key] = v

    def inconcl(self, why, n=1):
        self.inconclusive[why] = self.inconclusive.get(why, 0) + n

    def sample(self, s, cap=4):
        if len(self.samples) < cap:
            self.samples.append(s)

    def violation(self, key, what, replay_files=None):
        """Record a violation; `key` is the signature matched against known_findings.json."""
        kf = match_known(self.pid, key, what)
        if kf is not None:
            if kf["key"] not in [k["key"] for k in self.known]:
                self.known.append(kf)
            self.count("known_finding_hits")
            return None
        rp = write_replay(self.pid, key, what, replay_files or {})
        if len(self.violations) < 50:
            self.violations.append((key, what, rp))
        return rp

    def finish(self, min_distinct=2):
        wall = time.time() - self.t0
        cov = dict(self.cov)
        cov["evaluations"] = int(self.evaluations)
        cov["distinct_nontrivial"] = len(self.distinct) if isinstance(self.distinct, set) else int(self.distinct)
        cov["rule"] = self.rule
        cov["samples"] = self.samples
        cov["inconclusive_cases"] = self.inconclusive
        cov["known_findings_reported"] = [k["key"] for k in self.known]
        ev = {
            "property_id": self.pid,
            "tier": self.tier,
            "seed": seed(),
            "level": self.level,
            "coverage": cov,
            "assumptions": self.assumptions,
            "wall_s": round(wall, 2),
            "violations": len(self.violations),
        }
        if self.level == "translation_validation":
            cov.setdefault("programs", cov.get("programs", 0))
            cov.setdefault("disagreements_checked", len(self.violations))
        os.makedirs(EVIDENCE, exist_ok=True)
        tmp = os.path.join(EVIDENCE, self.pid + ".json.tmp")
        with open(tmp, "w") as f:
            json.dump(ev, f, indent=1, sort_keys=True, default=str)
        os.replace(tmp, os.path.join(EVIDENCE, self.pid + ".json"))
        for k in self.known:
            print("KNOWN-FINDING: property=%s %s" % (self.pid, k["what"]))
        if self.violations:
            for key, what, rp in self.violations:
                print("VIOLATION property=%s replay=%s" % (self.pid, rp))
                print("  " + what.replace("\n", "\n  ")[:3000])
            return 1
        if cov["evaluations"] < 1 or cov["distinct_nontrivial"] < min_distinct or not self.samples:
            print(
                "INCONCLUSIVE property=%s observed too little (evaluations=%d distinct_nontrivial=%d)"
                % (self.pid, cov["evaluations"], cov["distinct_nontrivial"])
            )
            return 2
        print(
            "OK property=%s tier=%s evaluations=%d distinct_nontrivial=%d inconclusive=%s wall=%.1fs"
            % (self.pid, self.tier, cov["evaluations"], cov["distinct_nontrivial"], json.dumps(self.inconclusive), wall)
        )
        return 0


_known_cache = None


def known_findings():
    global _known_cache
    if _known_cache is None:
        p = os.path.join(VERIF, "known_findings.json")
        try:
            with open(p) as f:
                _known_cache = json.load(f).get("findings", [])
        except FileNotFoundError:
            _known_cache = []
    return _known_cache


def match_known(pid, key, what):
    for k in known_findings():
        if k.get("status") != "known":
            continue
        if k.get("property") != pid:
            continue
        if k.get("key") == key:
            return k
    return None


def write_replay(pid, key, what, files):
    h = sha(pid, key, what)[:12]
    d = os.path.join(REPLAYS, pid, h)
    os.makedirs(d, exist_ok=True)
    with open(os.path.join(d, "violation.txt"), "w") as f:
        f.write("property=%s\nkey=%s\nseed=%s\n\n%s\n" % (pid, key, seed(), what))
    for name, content in files.items():
        mode = "wb" if isinstance(content, bytes) else "w"
        with open(os.path.join(d, name), mode) as f:
            f.write(content)
    return d


def inconclusive_exit(pid, why):
    print("INCONCLUSIVE property=%s %s" % (pid, why))
    sys.exit(2)
