"""CLI-level workloads: C12 (incremental builds under edits, failures and crash points),
C13 (deterministic compilation), C11 (arbitrary input), C10 (static checks)."""
import hashlib
import json
import os
import random
import re
import shutil
import signal
import subprocess
import tempfile

from . import gen
from .checks_model import PROFILES_ALL, _cnt, _empty_out, _inc, aggregate, load_theory, specs_for
from .modelrun import pmap
from .theory import Sig, emit
from .util import EQLOG_BIN, VERIF, WORK, Result, env_with, seed, sha

STUB = os.path.join(VERIF, "shim", "stub-rustc")
SHIM = os.path.join(WORK, "libfsfault.so")
FAKE_RLIB = "/nonexistent/libeqlog_runtime.rlib"


def _vio(key, what, files):
    return {"key": key, "what": what, "files": files}


def run_cli(args, cwd, env=None, timeout=120, wrapper=()):
    """Runs the compiler in its own process group. Returns (rc, stdout, stderr); rc None on
    timeout, negative for signals."""
    try:
        p = subprocess.Popen(list(wrapper) + [EQLOG_BIN] + args, cwd=cwd, env=env if env is not None else env_with(),
                             stdout=subprocess.PIPE, stderr=subprocess.PIPE, start_new_session=True)
    except OSError as e:
        return -999, "", str(e)
    try:
        out, err = p.communicate(timeout=timeout)
    except subprocess.TimeoutExpired:
        try:
            os.killpg(p.pid, signal.SIGKILL)
        except OSError:
            pass
        p.communicate()
        return None, "", ""
    return p.returncode, out.decode("utf-8", "replace"), err.decode("utf-8", "replace")


def tree(root):
    """relative path -> bytes for all files under root."""
    out = {}
    for d, _, files in os.walk(root):
        for f in files:
            p = os.path.join(d, f)
            with open(p, "rb") as fh:
                out[os.path.relpath(p, root)] = fh.read()
    return out


def tree_diff(a, b, limit=6):
    """a = observed, b = expected"""
    out = []
    for k in sorted(set(a) | set(b)):
        if k not in b:
            out.append("extra file %s" % k)
        elif k not in a:
            out.append("missing file %s" % k)
        elif a[k] != b[k]:
            out.append("file %s differs (%d vs %d bytes)" % (k, len(a[k]), len(b[k])))
        if len(out) >= limit:
            break
    return out


# ---------------------------------------------------------------------------------------------
# C13: deterministic compilation

COMPANION = """type Ca;
pred cp(Ca, Ca);
pred cq(Ca);
rule {
    if cp(x, _);
    then cq(x);
}
rule {
    if cq(x);
    then cp(x, x);
}
rule named_one {
    if cp(x, x);
    then cq(x);
}
"""


def c13_task(task):
    out = _empty_out()
    try:
        th = load_theory(task["spec"])
    except Exception:
        _inc(out, "theory-not-loadable")
        return out
    text = th.get("text") or emit(th)
    name = th["name"]
    rng = random.Random(sha(str(task["spec"]), str(task["seed"])))
    if task.get("anonymous"):
        # anonymous rules are named by the compiler itself: strip the names of a random subset
        text = re.sub(r"(?m)^rule [a-z_]+ \{", lambda m: "rule {" if rng.random() < 0.7 else m.group(0), text)
    base = tempfile.mkdtemp(prefix="c13-", dir=WORK)
    try:
        variants = []

        def mk(sub):
            d = os.path.join(base, sub)
            os.makedirs(os.path.join(d, "src"))
            with open(os.path.join(d, "src", name + ".eql"), "w") as f:
                f.write(text)
            return d

        def comp_args(d, absolute):
            p = (lambda x: os.path.join(d, x)) if absolute else (lambda x: x)
            return [p("src"), p("out"), "--build-type", "component", "--component-out-dir", p("comp"), "--rustc-path", STUB, "--runtime-rlib-path", FAKE_RLIB]

        d0 = mk("a")
        variants.append(("relative-paths", d0, comp_args(d0, False), env_with(), ()))
        d1 = mk("b/deeper/than/the-first_%d" % rng.randrange(10 ** 6))
        variants.append(("absolute-deep-dir", d1, comp_args(d1, True), env_with(), ()))
        d2 = mk("c")
        variants.append(("threads-1", d2, comp_args(d2, False), env_with({"RAYON_NUM_THREADS": "1"}), ()))
        d3 = mk("d")
        variants.append(("threads-16-delays", d3, comp_args(d3, False), env_with({"RAYON_NUM_THREADS": "16", "STUB_DELAY_MS": "40", "STUB_SEED": str(rng.randrange(1000))}), ()))
        d4 = mk("e")
        variants.append(("threads-2-one-cpu-delays", d4, comp_args(d4, True), env_with({"RAYON_NUM_THREADS": "2", "STUB_DELAY_MS": "25", "STUB_SEED": str(rng.randrange(1000))}), ("taskset", "-c", "0")))
        d5 = mk("f")
        noise = {"LANG": "de_DE.UTF-8", "LC_ALL": "C", "TZ": "Pacific/Kiritimati", "HOME": "/nonexistent", "VF_NOISE": "x" * 5000}
        variants.append(("aslr-off-env-noise", d5, comp_args(d5, False), env_with(noise), ("setarch", "x86_64", "-R")))
        d6 = mk("g")
        variants.append(("repeat", d6, comp_args(d6, False), env_with(), ()))
        m0 = mk("m0")
        variants.append(("module", m0, ["src", "out"], env_with(), ()))
        m1 = mk("m1/x y")
        variants.append(("module-abs-space-in-path", m1, [os.path.join(m1, "src"), os.path.join(m1, "out")], env_with({"RAYON_NUM_THREADS": "3"}), ()))
        # the same theory compiled by one compiler process together with other theories of the same
        # source directory (before and after it in any directory order), and regenerated on its own
        # after a full build of that directory
        def companions(d):
            for cname in ("aa_companion", "zz_companion", "m_companion"):
                with open(os.path.join(d, "src", cname + ".eql"), "w") as f:
                    f.write(COMPANION)
        c0 = mk("h")
        companions(c0)
        variants.append(("with-companion-theories", c0, comp_args(c0, False), env_with({"RAYON_NUM_THREADS": "4"}), ()))
        c1 = mk("i")
        companions(c1)
        variants.append(("module-with-companion-theories", c1, ["src", "out"], env_with(), ()))
        c2 = mk("j")
        companions(c2)
        variants.append(("module-regenerated-after-full-build", c2, ["src", "out"], env_with(), ()))
        results = []
        for vname, d, args, env, wrapper in variants:
            rc, so, se = run_cli(args, d, env=env, wrapper=wrapper)
            if rc is None:
                _inc(out, "compiler-timeout")
                return out
            if vname == "module-regenerated-after-full-build" and rc == 0:
                # touch only this theory (same text, digest line removed) and build again
                mp = os.path.join(d, "out", name + ".eql.rs")
                if os.path.exists(mp):
                    os.unlink(mp)
                rc, so, se = run_cli(args, d, env=env, wrapper=wrapper)
            files = {}
            for sub in ("out", "comp"):
                if os.path.isdir(os.path.join(d, sub)):
                    for k, v in tree(os.path.join(d, sub)).items():
                        if "_companion" in k:
                            continue  # only the theory under test is compared
                        files[sub + "/" + k] = v
            results.append((vname, rc, files))
        comp = [r for r in results if not r[0].startswith("module")]
        mods = [r for r in results if r[0].startswith("module")]
        if comp[0][1] == 1:
            _cnt(out, "programs_rejected_by_compiler")
            if any(r[1] != 1 for r in results):
                out["violations"].append(_vio("c13:verdict-differs", "accept/reject differs between runs: %s" % [(r[0], r[1]) for r in results], {name + ".eql": text}))
            return out
        if comp[0][1] != 0:
            _inc(out, "compiler-exit-%s" % comp[0][1])
            return out
        _cnt(out, "programs")
        for group in (comp, mods):
            ref = group[0]
            for vname, rc, files in group[1:]:
                out["evaluations"] += 1
                if rc != ref[1] or files != ref[2]:
                    diff = tree_diff(files, ref[2])
                    what = "two compilations of the same source text and file name differ (%s vs %s): exit %s vs %s\n  %s" % (vname, ref[0], rc, ref[1], "\n  ".join(diff))
                    ex = {name + ".eql": text}
                    for k in sorted(set(files) | set(ref[2])):
                        if files.get(k) != ref[2].get(k) and k.endswith(".rs"):
                            ex["A_" + k.replace("/", "_")] = ref[2].get(k, b"")
                            ex["B_" + k.replace("/", "_")] = files.get(k, b"")
                            break
                    out["violations"].append(_vio("c13:" + (diff[0].split(" ")[0] if diff else "exit"), what, ex))
                    return out
        ncomp = len([k for k in comp[0][2] if k.endswith(".rlib")])
        _cnt(out, "component_files_compared", ncomp * (len(comp) - 1))
        out["counts"]["max_components"] = ncomp
        if ncomp >= 2:
            out["distinct"].append(sha(text)[:16])
        if not out["samples"]:
            out["samples"].append({"program": text[:500], "variants": [v[0] for v in variants], "files": sorted(comp[0][2])[:12]})
    finally:
        shutil.rmtree(base, ignore_errors=True)
    return out


def c13(tier, replay=None):
    res = Result("C13", tier)
    res.rule = ("one evaluation = one pair of compilations of the same source text and theory file name compared byte-wise over every generated "
                "file (module, component sources, stub-compiled libraries, theory and component digests): relative vs absolute and deeper "
                "directories, RAYON_NUM_THREADS 1/2/16 with random per-component rustc delays (permuted completion order), pinned to one CPU, "
                "ASLR off + environment noise, plain repeat, compiled by one process together with three other theories of the same source "
                "directory, regenerated on its own after a full build of that directory; module builds likewise; in every second program a random "
                "subset of the rules is anonymous (named by the compiler); non-trivial = programs with >= 2 components")
    res.assumptions = ["component libraries are produced by a deterministic stub rustc (real rustc output is outside the statement)"]
    q = tier == "quick"
    specs = specs_for(tier, 130, 3000, PROFILES_ALL)
    aggregate(res, pmap(c13_task, [{"spec": s, "seed": seed(), "anonymous": i % 2 == 0} for i, s in enumerate(specs)]))
    return res.finish()


# ---------------------------------------------------------------------------------------------
# C12: incremental builds are never stale


C12_BASE = """type A;
type B;
pred p(A);
pred q(A, B);
func f(A) -> B;
rule ra {
    if p(x);
    then f(x)!;
}
rule rb {
    if y = f(x);
    then q(x, y);
}
rule rc {
    if q(x, y);
    if q(x_0, y);
    then x = x_0;
}
"""


def c12_versions(rng, base_text):
    """A family of versions of one theory: name -> text."""
    v = {"v1": base_text}
    # edit a rule body
    v["edit"] = base_text.replace("rule rb {\n    if y = f(x);\n    then q(x, y);\n}", "rule rb {\n    if y = f(x);\n    if p(x);\n    then q(x, y);\n}")
    # remove a rule
    v["removed"] = re.sub(r"rule rc \{.*?\n\}\n", "", base_text, flags=re.S)
    # add a rule
    v["added"] = base_text + "rule rd {\n    if q(x, _);\n    then p(x);\n}\n"
    # rename a rule
    v["renamed"] = base_text.replace("rule rb {", "rule rz {")
    # comment-only change
    v["comment"] = base_text + "// just a comment\n"
    # declaration added
    v["decl"] = base_text.replace("pred p(A);", "pred p(A);\npred extra(B);")
    return v


def c12_versions_generated(rng, th):
    text = emit(th)
    v = {"v1": text}
    if len(th["rules"]) >= 2:
        t2 = dict(th)
        t2["rules"] = th["rules"][:-1]
        v["removed"] = emit(t2)
        t3 = dict(th)
        t3["rules"] = [th["rules"][-1]] + th["rules"][:-1]
        v["reordered"] = emit(t3)
    t4 = dict(th)
    r = dict(th["rules"][0])
    r["name"] = "rz"
    t4["rules"] = th["rules"] + [r]
    v["added"] = emit(t4)
    v["comment"] = text + "// c\n"
    return v


class Builder:
    """One output area; builds under the fault shim; snapshots/restores its state."""

    def __init__(self, root, name, mode):
        self.root = root
        self.name = name
        self.mode = mode
        self.src = os.path.join(root, "src")
        self.out = os.path.join(root, "out")
        self.comp = os.path.join(root, "comp")
        os.makedirs(self.src, exist_ok=True)

    def set_source(self, text):
        with open(os.path.join(self.src, self.name + ".eql"), "w") as f:
            f.write(text)

    def args(self):
        a = [self.src, self.out]
        if self.mode == "component":
            a += ["--build-type", "component", "--component-out-dir", self.comp, "--rustc-path", STUB, "--runtime-rlib-path", FAKE_RLIB]
        return a

    def build(self, kill_at=None, torn=False, fail=None, partial=None, threads="1", killed=False):
        log = os.path.join(self.root, "fs.log")
        cnt = os.path.join(self.root, "fs.cnt")
        for p in (log, cnt):
            if os.path.exists(p):
                os.unlink(p)
        env = env_with({"LD_PRELOAD": SHIM, "FSFAULT_ROOTS": self.out + ":" + self.comp, "FSFAULT_LOG": log, "FSFAULT_COUNTER": cnt, "RAYON_NUM_THREADS": threads})
        if kill_at is not None:
            env["FSFAULT_KILL_AT"] = str(kill_at)
            if torn:
                env["FSFAULT_TORN"] = "1"
        if fail:
            env["STUB_FAIL"] = fail
            if partial:
                env["STUB_PARTIAL"] = fail
            if killed:
                env["STUB_KILL"] = fail
        rc, so, se = run_cli(self.args(), self.root, env=env)
        muts = []
        if os.path.exists(log):
            with open(log) as f:
                muts = [l.split(" ", 4) for l in f.read().splitlines()]
        return rc, so, se, muts

    def state(self):
        s = {}
        for sub in ("out", "comp"):
            p = os.path.join(self.root, sub)
            if os.path.isdir(p):
                for k, v in tree(p).items():
                    s[sub + "/" + k] = v
        return s

    def restore(self, state):
        for sub in ("out", "comp"):
            shutil.rmtree(os.path.join(self.root, sub), ignore_errors=True)
        for k, v in state.items():
            p = os.path.join(self.root, k)
            os.makedirs(os.path.dirname(p), exist_ok=True)
            with open(p, "wb") as f:
                f.write(v)


def c12_clean(base, name, mode, text, cache):
    key = sha(mode, text)
    if key not in cache:
        d = tempfile.mkdtemp(prefix="clean-", dir=base)
        b = Builder(d, name, mode)
        b.set_source(text)
        rc, so, se, muts = b.build()
        cache[key] = (rc, b.state(), sorted(l for l in so.splitlines() if "rustc-link-lib" in l))
        shutil.rmtree(d, ignore_errors=True)
    return cache[key]


def c12_task(task):
    out = _empty_out()
    rng = random.Random(sha(str(task["family"]), str(task["seed"])))
    name = "th"
    if task["family"][0] == "base":
        versions = c12_versions(rng, C12_BASE)
    else:
        try:
            th = load_theory(task["family"][1])
        except Exception:
            _inc(out, "theory-not-loadable")
            return out
        if not th.get("rules") or "text" in th:
            return out
        versions = c12_versions_generated(rng, th)
    mode = task["mode"]
    base = tempfile.mkdtemp(prefix="c12-", dir=WORK)
    cache = {}
    try:
        # every version must be accepted by the compiler (else the family is useless)
        for vn, vt in list(versions.items()):
            rc, st, links = c12_clean(base, name, mode, vt, cache)
            if rc != 0:
                del versions[vn]
        if "v1" not in versions or len(versions) < 2:
            _cnt(out, "families_skipped")
            return out
        _cnt(out, "families")
        vnames = sorted(versions)
        B = Builder(os.path.join(base, "work"), name, mode)

        def judge(history, final_version):
            """The last build succeeded: compare with a clean build of the current version."""
            rc, st, links = c12_clean(base, name, mode, versions[final_version], cache)
            got = B.state()
            out["evaluations"] += 1
            if got != st:
                diff = tree_diff(got, st)
                kinds = set()
                for d in diff:
                    if d.startswith("extra file") and d.endswith(".rlib"):
                        kinds.add("stale-extra-library")
                    elif d.startswith("extra file"):
                        kinds.add("stale-extra-file")
                    elif "differs" in d and d.endswith("bytes)") and ".rlib" in d:
                        kinds.add("stale-library")
                    elif "differs" in d:
                        kinds.add("stale-content")
                    else:
                        kinds.add("missing-file")
                key = "c12:" + "+".join(sorted(kinds))
                what = "after the history %s the successful build of version %r (%s mode) left an output tree that differs from a clean build:\n  %s" % (
                    history, final_version, mode, "\n  ".join(diff))
                out["violations"].append(_vio(key, what, {"history.json": json.dumps(history), "versions.json": json.dumps(versions, indent=1)}))
                return False
            return True

        # --- step 1: build v1; no-op rebuild makes no mutation
        B.set_source(versions["v1"])
        rc, so, se, muts = B.build()
        if rc != 0:
            _inc(out, "first-build-failed")
            return out
        K1 = len(muts)
        rc, so, se, muts = B.build()
        out["evaluations"] += 1
        _cnt(out, "noop_builds_checked")
        if rc != 0 or muts:
            out["violations"].append(_vio("c12:noop-build-mutates", "a build with unchanged source performed file-system mutations (%s mode): %s" % (mode, muts[:6]),
                                          {"versions.json": json.dumps(versions, indent=1)}))
            return out
        s1 = B.state()
        if not judge([["build", "v1"]], "v1"):
            return out
        budget = task["budget"]
        # --- step 2: edit to v2 and build with a fault; step 3: edit to v3 and build successfully
        pairs = [(a, b) for a in vnames if a != "v1" for b in vnames]
        rng.shuffle(pairs)
        # always include the revert histories first (the only ones that can expose stale components)
        pairs.sort(key=lambda ab: 0 if ab[1] == "v1" else (1 if ab[1] == ab[0] else 2))
        for v2, v3 in pairs:
            if budget <= 0:
                break
            # uninterrupted build of v2 from state s1 to number the crash points
            B.restore(s1)
            B.set_source(versions[v2])
            rc, so, se, muts = B.build()
            if rc != 0:
                continue
            K = len(muts)
            comps = sorted(set(m[3].split("/")[-1][:-3] for m in muts if m[3].endswith(".rs") and "/comp/" in m[3]))
            faults = [("ok", None)]
            ks = list(range(1, K + 1))
            if not task["exhaustive"] and len(ks) > 6:
                ks = sorted(rng.sample(ks, 6))
            for k in ks:
                faults.append(("kill", k))
                if muts[k - 1][2] == "write" and (task["exhaustive"] or rng.random() < 0.4):
                    faults.append(("torn", k))
            if mode == "component":
                for c in (comps if task["exhaustive"] else comps[:2]):
                    faults.append(("rustc-fail", c))
                    faults.append(("rustc-fail-partial", c))
                    # the rustc child terminated by a signal (OOM killer, kill -9): no exit code
                    faults.append(("rustc-killed", c))
                    faults.append(("rustc-killed-partial", c))
            for kind, arg in faults:
                if budget <= 0:
                    break
                budget -= 1
                B.restore(s1)
                B.set_source(versions[v2])
                if kind == "ok":
                    rc, so, se, m2 = B.build()
                elif kind in ("kill", "torn"):
                    rc, so, se, m2 = B.build(kill_at=arg, torn=(kind == "torn"))
                    _cnt(out, "crash_points_hit")
                else:
                    rc, so, se, m2 = B.build(fail=arg, partial=kind.endswith("partial"), killed=kind.startswith("rustc-killed"))
                    _cnt(out, "rustc_kills_injected" if kind.startswith("rustc-killed") else "rustc_failures_injected")
                hist = [["build", "v1"], ["edit", v2], [kind, arg]]
                if rc == 0 and kind != "ok":
                    # the fault did not hit (e.g. component skipped): still a legal history
                    pass
                if rc == 0:
                    if not judge(hist, v2):
                        return out
                # step 3
                B.set_source(versions[v3])
                rc3, so3, se3, m3 = B.build()
                hist = hist + [["edit", v3], ["build", None]]
                if rc3 != 0:
                    out["violations"].append(_vio("c12:build-fails-after-fault", "a build without injected faults failed after the history %s: exit %s\n%s" % (hist, rc3, se3[-600:]),
                                                  {"history.json": json.dumps(hist), "versions.json": json.dumps(versions, indent=1)}))
                    return out
                if v3 != v2 and kind != "ok":
                    _cnt(out, "histories_where_fault_and_next_edit_disagree")
                    out["distinct"].append(sha(mode, versions["v1"], json.dumps(hist))[:16])
                if not judge(hist, v3):
                    return out
                # and a further no-op build must not touch anything
                rc4, so4, se4, m4 = B.build()
                out["evaluations"] += 1
                _cnt(out, "noop_builds_checked")
                if rc4 != 0 or m4:
                    out["violations"].append(_vio("c12:noop-build-mutates", "a build with unchanged source performed file-system mutations after the history %s: %s" % (hist, m4[:6]),
                                                  {"history.json": json.dumps(hist), "versions.json": json.dumps(versions, indent=1)}))
                    return out
        if not out["samples"]:
            out["samples"].append({"mode": mode, "versions": sorted(versions), "mutations_of_first_build": K1,
                                   "example_history": [["build", "v1"], ["edit", "edit"], ["kill", 3], ["edit", "v1"], ["build", None]]})
    finally:
        shutil.rmtree(base, ignore_errors=True)
    return out


def c12(tier, replay=None):
    res = Result("C12", tier, level="fault_enumeration")
    res.rule = ("one evaluation = one successful build at the end of a history {build v1; edit to v2; build killed before its k-th file-system mutation "
                "(every k of the uninterrupted build in the exhaustive families, torn writes included) | build with a failing rustc for one component "
                "(with/without partial output) | successful build; edit to v3; build}, whose output tree (module, component sources, libraries, "
                "digests) is compared byte-wise with a clean build of the current version, plus a following no-op build that must perform zero "
                "mutating syscalls (LD_PRELOAD log); non-trivial = histories where the faulted build and the next edit disagree")
    res.assumptions = ["mutations are observed at the libc boundary of the unmodified compiler binary (cross-checked against strace once)",
                       "stub rustc for component libraries; RAYON_NUM_THREADS=1 so that crash points are numbered deterministically"]
    q = tier == "quick"
    tasks = [{"family": ("base",), "mode": m, "seed": seed(), "budget": 400 if q else 3000, "exhaustive": True} for m in ("module", "component")]
    specs = [s for s in specs_for(tier, 40 if q else 300, 300, ["mixed", "nonsurj", "surj"], corpus=False)]
    for i, s in enumerate(specs):
        tasks.append({"family": ("gen", s), "mode": "component" if i % 3 else "module", "seed": seed(), "budget": 24 if q else 120, "exhaustive": False})
    aggregate(res, pmap(c12_task, tasks))
    res.cov["exhaustive"] = False
    return res.finish()


TABLE = {"C12": c12, "C13": c13}
