"""Model-level checks: C01-C07, C15, C19, C20 (generated module + runtime, observed through the
driver's event log and decided by the reference semantics / invariant checkers)."""
import copy
import json
import os
import random

from . import driver, gen, modelrun, ref
from .modelrun import (attach_tokens, labels_of, model_from_dump, pmap, reference_input, theory_feature_hist,
                       theory_pool, write_case)
from .theory import Sig, emit
from .util import REPLAYS, Result, seed, sha

ITER_CAP = 30


def setup():
    """setup_cmd hook: nothing to precompute beyond the build (theories compile on demand, cached)."""
    return 0


def load_theory(spec):
    if spec[0] == "gen":
        _, s, prof = spec
        th = gen.gen_theory(s, prof, name="th")
        return th
    if spec[0] == "file":
        from . import parser
        return parser.load(spec[1])
    if spec[0] == "model":
        from . import models
        th = models.gen_model_theory(spec[1])
        if th is None:
            raise ValueError("no rules")
        return th
    raise ValueError(spec)


def specs_for(tier, nq, nt, profiles, base=0, corpus=True):
    specs = [("gen", s, p) for (s, p) in theory_pool(tier, nq, nt, profiles, base)]
    if corpus:
        try:
            from . import parser
            specs = [("file", p) for p in parser.corpus_files()] + specs
        except ImportError:
            pass
    return specs


def _vio(key, what, th, script, extra=None):
    files = {"theory.eql": th.get("text") or emit(th), "script.txt": script}
    files["theory.ast.json"] = json.dumps({k: v for k, v in th.items() if k != "text"}, indent=1)
    if extra:
        files.update(extra)
    return {"key": key, "what": what, "files": files}


def _empty_out():
    return {"evaluations": 0, "distinct": [], "counts": {}, "violations": [], "inconclusive": {}, "samples": [], "features": {}}


def _cnt(out, k, n=1):
    out["counts"][k] = out["counts"].get(k, 0) + n


def _inc(out, k, n=1):
    out["inconclusive"][k] = out["inconclusive"].get(k, 0) + n


def _prepare(task, out, hooks=False, mode="module"):
    """Load + compile the theory of a task. Returns (th, sig, meta) or None."""
    try:
        th = load_theory(task["spec"])
    except Exception as e:  # parser outside fragment etc.
        _inc(out, "theory-not-loadable")
        return None
    if not th.get("rules") and task["spec"][0] == "gen":
        _inc(out, "generated-theory-without-rules")
        return None
    sig = Sig(th)
    meta = driver.compile_theory(th, hooks=hooks, mode=mode)
    if not meta["ok"]:
        if meta["stage"] == "eqlog" and meta.get("eqlog_rc") == 1:
            _cnt(out, "programs_rejected_by_compiler")
        else:
            _inc(out, "build-failed:" + meta["stage"])
            out.setdefault("notes", []).append(meta["stderr"][-600:])
        return None
    _cnt(out, "programs")
    for k, v in theory_feature_hist(th).items():
        out["features"][k] = out["features"].get(k, 0) + v
    return th, sig, meta


def _run(meta, hists, out, timeout=75):
    status, hs, raw, err = driver.run_script(meta, hists, timeout=timeout)
    script = driver.script_text(hists)
    attach_tokens(hs, script)
    if status != "ok":
        _inc(out, "driver-" + status.split(":")[0])
        out.setdefault("notes", []).append("driver %s on %s" % (status, meta.get("name", "?") + ":" + os.path.basename(meta["dir"])))
    return status, hs, script


def _close_stats(out, ev, prev_pub, pub):
    _cnt(out, "closes")
    if ev.get("iters", 0) >= 3:
        _cnt(out, "closes_with_2plus_iterations")
    if ev.get("iters", 0) >= 5:
        _cnt(out, "closes_with_4plus_iterations")
    out["counts"]["max_iterations"] = max(out["counts"].get("max_iterations", 0), ev.get("iters", 0))


def _n_roots(pub):
    return sum(len(v) for v in pub["types"].values())


def early_stops(rng, sig, ops, p=0.45):
    """Replace intermediate close() calls (never the final one) by close_until with a monotone
    condition `iter_<rel>().count() >= k`: depending on k it holds at once, after some iteration
    (the call returns true from inside the loop and a later close() has to finish the work), or
    never (the call behaves like close())."""
    rels = [r for r in sorted(sig.rels)]
    last = max((i for i, o in enumerate(ops) if o[0] == "close"), default=-1)
    out = []
    for i, o in enumerate(ops):
        if o[0] == "close" and i != last and rels and rng.random() < p:
            out.append(["cu", ITER_CAP, "any", "count", rng.choice(rels), rng.choice((1, 1, 2, 2, 3, 4))])
        else:
            out.append(o)
    return out


# ---------------------------------------------------------------------------------------------
# C01: closedness


def c01_task(task):
    out = _empty_out()
    pr = _prepare(task, out)
    if pr is None:
        return out
    th, sig, meta = pr
    rng = random.Random(sha(str(task["spec"]), str(task["seed"])))
    hists = []
    for i in range(task["histories"]):
        create, facts = gen.gen_facts(rng, sig, n_elems=task.get("n_elems", (2, 4)), max_facts=task.get("max_facts", 14))
        ops = gen.with_closes(rng, create, facts, closes=(0, 3))
        ops = early_stops(rng, sig, ops)
        ops2 = []
        for op in ops:
            ops2.append(op)
            if op[0] == "close":
                ops2.append(["dump"])
        hists.append(("h%d" % i, 1, ops2))
    status, hs, script = _run(meta, hists, out)
    for h in hs:
        evs = h["events"]
        if any(e.get("e") == "op" and e.get("op") == "cu" and e.get("ret") is True and e.get("iters", 0) >= 2 for e in evs):
            _cnt(out, "histories_with_close_until_stopped_inside_the_loop")
        last_close = None
        prev_roots = None
        for ev in evs:
            if ev.get("e") != "op":
                continue
            if "panic" in ev:
                out["violations"].append(_vio("panic:" + ev["panic"][:80], "API call panicked in history %s: %s\nop: %s" % (h["tag"], ev["panic"], ev.get("toks")), th, script))
                break
            if ev["op"] == "cu" and ev.get("capped"):
                _inc(out, "close-capped")
                break
            if ev["op"] == "close":
                last_close = ev
                if ev.get("capped"):
                    _inc(out, "close-capped")
                    break
            elif ev["op"] == "dump" and last_close is not None:
                pub = ev["public"]
                m = model_from_dump(sig, pub)
                out["evaluations"] += 1
                try:
                    bad = ref.satisfied(m, th)
                except ref.RefError as e:
                    _inc(out, "reference-outside-fragment")
                    break
                _close_stats(out, last_close, None, pub)
                nr = _n_roots(pub)
                nalloc = sum(len(v) for v in pub["roots"].values())
                if nr < nalloc:
                    _cnt(out, "closed_models_with_merged_elements")
                key = sha(th.get("text") or emit(th), json.dumps(pub, sort_keys=True))[:16]
                if last_close.get("iters", 0) >= 3 or nr < nalloc:
                    out["distinct"].append(key)
                if bad:
                    what = "closed model violates the theory after close() (history %s, script line %d):\n  %s\nmodel: %s" % (
                        h["tag"], last_close["i"], "\n  ".join(bad), json.dumps(pub)[:1500])
                    out["violations"].append(_vio("c01:" + bad[0].split(":")[0], what, th, script, {"history.txt": h["tag"]}))
                    break
                last_close = None
    if hists and len(out["samples"]) < 1:
        out["samples"].append({"theory": (th.get("text") or emit(th))[:1200], "history": [" ".join(map(str, o)) for o in hists[0][2]][:40]})
    return out


# ---------------------------------------------------------------------------------------------
# C02: free model


def c02_task(task):
    out = _empty_out()
    pr = _prepare(task, out)
    if pr is None:
        return out
    th, sig, meta = pr
    rng = random.Random(sha(str(task["spec"]), str(task["seed"]), "c02"))
    hists = []
    for i in range(task["histories"]):
        create, facts = gen.gen_facts(rng, sig, n_elems=task.get("n_elems", (2, 3)), max_facts=task.get("max_facts", 10))
        ops = gen.with_closes(rng, create, facts, closes=(0, 2))
        ops.append(["dump"])
        hists.append(("h%d" % i, 1, ops))
    status, hs, script = _run(meta, hists, out)
    for h, (tag, _, ops) in zip(hs, hists):
        evs = [e for e in h["events"] if e.get("e") == "op"]
        if any("panic" in e for e in evs):
            p = [e for e in evs if "panic" in e][0]
            out["violations"].append(_vio("panic:" + p["panic"][:80], "API call panicked in history %s: %s" % (tag, p["panic"]), th, script))
            continue
        if any(e.get("capped") for e in evs if e["op"] == "close"):
            _inc(out, "close-capped")
            continue
        dumps = [e for e in evs if e["op"] == "dump"]
        if not dumps:
            _inc(out, "no-final-dump")
            continue
        pub = dumps[-1]["public"]
        # reference
        try:
            m0, rlabs = reference_input(sig, [o for o in ops])
            ref.chase(th, m0, max_rounds=task.get("chase_rounds", 40), max_elems=task.get("chase_elems", 40))
        except ref.Bound:
            _inc(out, "reference-chase-bound")
            continue
        except ref.RefError:
            _inc(out, "reference-outside-fragment")
            continue
        labs = labels_of(sig, h["events"])
        m = model_from_dump(sig, pub)
        got = ref.canon(m, labs)
        want = ref.canon(m0, rlabs)
        out["evaluations"] += 1
        derived = m0.size() > len(set(m0.find(e) for e in rlabs.values()))
        merged = any(len(g) > 1 for gs in want["label_classes"].values() for g in gs)
        if derived:
            _cnt(out, "free_models_with_derived_elements")
        if merged:
            _cnt(out, "free_models_with_forced_merges_of_caller_elements")
        ntup = sum(len(v) for v in want["rels"].values())
        nin = sum(len(v) for v in m0.rels.values())
        if derived or merged or ntup > len([o for o in ops if o[0] in ("ins", "def", "newenum")]):
            out["distinct"].append(sha(th.get("text") or emit(th), json.dumps(want, sort_keys=True))[:16])
        if got != want:
            diff = ref.canon_diff(got, want)
            what = "closed model is not the free model (history %s):\n  %s\nobserved (named): %s\nexpected (reference chase): %s" % (
                tag, "\n  ".join(diff), json.dumps(got)[:1200], json.dumps(want)[:1200])
            out["violations"].append(_vio("c02:" + (diff[0].split(":")[0] if diff else "diff"), what, th, script, {"history.txt": tag}))
    if hists and not out["samples"]:
        out["samples"].append({"theory": (th.get("text") or emit(th))[:1200], "history": [" ".join(map(str, o)) for o in hists[0][2]][:40]})
    return out


# ---------------------------------------------------------------------------------------------
# C03: incremental = from scratch; close is idempotent


def c03_variants(rng, create, facts, k):
    vs = []
    bound = [gen.op_binds(o) for o in create]
    for j in range(k):
        c2 = list(create)
        if j % 2 == 1:
            # element creation order (enum creations depend on plain elements)
            c2 = gen.dep_shuffle(rng, create, [])
        f2 = gen.dep_shuffle(rng, facts, bound) if j > 0 else list(facts)
        kind = j % 5
        if kind == 0:
            ops = c2 + f2 + [["close"]]
        elif kind == 1:
            ops = gen.with_closes(rng, c2, f2, closes=(1, 3))
        elif kind == 2:
            ops = list(c2)
            for f in f2:
                ops.append(f)
                ops.append(["close"])
            ops.append(["close"])
        elif kind == 3:
            # redundant re-assertions
            ops = list(c2)
            for f in f2:
                ops.append(f)
                if f[0] in ("ins", "eq") and rng.random() < 0.5:
                    ops.append(f)
            if rng.random() < 0.5:
                ops.append(["close"])
                ops.extend(f for f in f2 if f[0] in ("ins", "eq"))
            ops.append(["close"])
        else:
            # late arrival: one assertion after everything else was closed
            ops = list(c2)
            if f2:
                late_i = rng.randrange(len(f2))
                late = f2[late_i]
                if late[0] in ("ins", "eq"):
                    ops.extend(f2[:late_i] + f2[late_i + 1:])
                    ops.append(["close"])
                    ops.append(late)
                else:
                    ops.extend(f2)
            ops.append(["close"])
        vs.append(ops)
    return vs


def c03_task(task):
    out = _empty_out()
    pr = _prepare(task, out)
    if pr is None:
        return out
    th, sig, meta = pr
    rng = random.Random(sha(str(task["spec"]), str(task["seed"]), "c03"))
    hists = []
    groups = []
    for i in range(task["factsets"]):
        create, facts = gen.gen_facts(rng, sig, n_elems=task.get("n_elems", (2, 4)), max_facts=task.get("max_facts", 12))
        vs = c03_variants(rng, create, facts, task["variants"])
        # in every third variant the intermediate closes stop early (close_until with a monotone
        # condition): the final close() must still reach the same model
        vs = [early_stops(rng, sig, ops, p=0.6) if j % 3 == 2 else ops for j, ops in enumerate(vs)]
        tags = []
        for j, ops in enumerate(vs):
            tag = "f%dv%d" % (i, j)
            hists.append((tag, 1, ops + [["dump"], ["close"], ["dump"]]))
            tags.append(tag)
        groups.append(tags)
    status, hs, script = _run(meta, hists, out)
    by_tag = {h["tag"]: h for h in hs}
    for tags in groups:
        canons = []
        for tag in tags:
            h = by_tag.get(tag)
            if h is None:
                continue
            evs = [e for e in h["events"] if e.get("e") == "op"]
            if any("panic" in e for e in evs):
                p = [e for e in evs if "panic" in e][0]
                out["violations"].append(_vio("panic:" + p["panic"][:80], "API call panicked in history %s: %s" % (tag, p["panic"]), th, script))
                continue
            if any(e.get("capped") for e in evs if e["op"] in ("close", "cu")):
                _inc(out, "close-capped")
                continue
            dumps = [e for e in evs if e["op"] == "dump"]
            if len(dumps) < 2:
                _inc(out, "no-final-dump")
                continue
            d1, d2 = dumps[-2]["public"], dumps[-1]["public"]
            out["evaluations"] += 1
            if d1 != d2:
                what = "close() on a closed model changed it (history %s):\nbefore: %s\nafter:  %s" % (tag, json.dumps(d1)[:1200], json.dumps(d2)[:1200])
                out["violations"].append(_vio("c03:idempotence", what, th, script, {"history.txt": tag}))
                continue
            _cnt(out, "idempotence_checks")
            labs = labels_of(sig, h["events"])
            m = model_from_dump(sig, d1)
            canons.append((tag, ref.canon(m, labs), sum(1 for e in evs if e["op"] == "close") - 1))
        if len(canons) >= 2:
            base = canons[0]
            for tag, cn, ncl in canons[1:]:
                out["evaluations"] += 1
                if ncl > 1:
                    _cnt(out, "variant_pairs_with_intermediate_closes")
                    out["distinct"].append(sha(th.get("text") or emit(th), tag, json.dumps(cn, sort_keys=True))[:16])
                if cn != base[1]:
                    diff = ref.canon_diff(cn, base[1])
                    what = "two histories asserting the same facts closed to different models (%s vs %s):\n  %s\n%s: %s\n%s: %s" % (
                        tag, base[0], "\n  ".join(diff), tag, json.dumps(cn)[:1000], base[0], json.dumps(base[1])[:1000])
                    out["violations"].append(_vio("c03:" + (diff[0].split(":")[0] if diff else "diff"), what, th, script, {"history.txt": tag + " vs " + base[0]}))
                    break
    if hists and not out["samples"]:
        out["samples"].append({"theory": (th.get("text") or emit(th))[:1000], "variant_a": [" ".join(map(str, o)) for o in hists[0][2]][:30],
                               "variant_b": [" ".join(map(str, o)) for o in hists[min(1, len(hists) - 1)][2]][:30]})
    return out


# ---------------------------------------------------------------------------------------------
# C04: canonical closed models, agreement of all copies and query paths


def c04_task(task):
    from . import invariants
    out = _empty_out()
    pr = _prepare(task, out)
    if pr is None:
        return out
    th, sig, meta = pr
    rng = random.Random(sha(str(task["spec"]), str(task["seed"]), "c04"))
    hists = []
    for i in range(task["histories"]):
        create, facts = gen.gen_facts(rng, sig, n_elems=(2, 3), max_facts=task.get("max_facts", 10))
        ops = gen.with_closes(rng, create, facts, closes=(0, 2))
        ops2 = []
        for op in ops:
            ops2.append(op)
            if op[0] == "close":
                ops2.append(["sweep"])
        # obs 4: private dump + point-query sweep at every condition evaluation
        hists.append(("h%d" % i, 4 if i % 3 == 0 else 3, ops2))
    status, hs, script = _run(meta, hists, out, timeout=90)
    for h in hs:
        stop = False
        for ev in h["events"]:
            if stop:
                break
            if ev.get("e") == "op" and "panic" in ev:
                out["violations"].append(_vio("panic:" + ev["panic"][:80], "API call panicked in history %s: %s" % (h["tag"], ev["panic"]), th, script))
                break
            if ev.get("e") == "op" and ev["op"] == "close" and ev.get("capped"):
                _inc(out, "close-capped")
                break
            point = None
            if ev.get("e") == "cond" and "private" in ev and not ev.get("capped"):
                point = ("condition evaluation %d" % ev["iter"], ev["public"], ev["private"], ev.get("sweep"))
            elif ev.get("e") == "op" and ev["op"] == "sweep":
                point = ("after close() returned", ev["public"], ev["private"], ev["sweep"])
            if point is None:
                continue
            where, pub, priv, sw = point
            try:
                bad, stats = invariants.check(sig, pub, priv, sw, quiescent=True)
            except driver.HarnessError as e:
                _inc(out, "probe-cannot-classify")
                out.setdefault("notes", []).append(str(e)[:300])
                stop = True
                continue
            out["evaluations"] += 1
            for k, v in stats.items():
                _cnt(out, k, v)
            nontriv = bool(stats.get("dumps_with_new_and_old_rows") or stats.get("diagonal_copies_with_both_kinds_of_rows") or stats.get("queries_with_nonroot_representatives"))
            if nontriv:
                out["distinct"].append(sha(th.get("text") or emit(th), json.dumps(pub, sort_keys=True), json.dumps(priv["index"], sort_keys=True))[:16])
            if bad:
                what = "inconsistent model state at %s (history %s):\n  %s\npublic: %s" % (where, h["tag"], "\n  ".join(bad), json.dumps(pub)[:1200])
                out["violations"].append(_vio("c04:" + bad[0].split(":")[0][:60], what, th, script, {"history.txt": h["tag"], "private.json": json.dumps(priv)}))
                stop = True
    if hists and not out["samples"]:
        out["samples"].append({"theory": (th.get("text") or emit(th))[:1000], "history": [" ".join(map(str, o)) for o in hists[0][2]][:30]})
    return out


# ---------------------------------------------------------------------------------------------
# C05: API calls take effect immediately; equality is what was equated


class Shadow:
    def __init__(self, sig):
        self.sig = sig
        self.parent = {t: [] for t in sig.all_types}
        self.rows = {r: [] for r in sig.rels}
        self.dirty_eq = False  # an equate_ happened since the last close

    def resync(self, pub):
        for t in self.sig.all_types:
            self.parent[t] = list(pub["roots"][t])
        for r in self.sig.rels:
            self.rows[r] = [tuple(x) for x in pub["rels"][r]]
        self.dirty_eq = False

    def find(self, t, x):
        p = self.parent[t]
        while x < len(p) and p[x] != x:
            x = p[x]
        return x

    def union(self, t, a, b):
        a, b = self.find(t, a), self.find(t, b)
        if a != b:
            self.parent[t][b] = a

    def alloc(self, t):
        return len(self.parent[t])

    def fresh(self, t, x):
        if x != len(self.parent[t]):
            return False
        self.parent[t].append(x)
        return True

    def rooted(self, cols, t):
        return tuple(self.find(ty, x) for ty, x in zip(cols, t))


def c05_history(rng, sig, nops):
    labels = {t: [] for t in sig.all_types}
    ops = [["dump"]]
    n = 0

    def lab(t):
        return rng.choice(labels[t]) if labels[t] else None

    def queries(r):
        cols = sig.rels[r]
        q = []
        if r in sig.preds:
            args = [lab(t) for t in cols]
            if all(a is not None for a in args):
                q.append(["pq", r] + args)
        else:
            args = [lab(t) for t in cols[:-1]]
            if all(a is not None for a in args):
                q.append(["ev", r] + args)
        if cols:
            q.append(["iter", r])
        return q

    for t in sig.types:
        for i in range(rng.randint(1, 3)):
            l = "%s%d" % (t, n)
            n += 1
            ops.append(["new", t, l])
            labels[t].append(l)
    for _ in range(nops):
        k = rng.choice(["ins", "ins", "ins", "def", "new", "eq", "close", "q", "q", "areeq", "root", "newenum"])
        if not sig.all_types and k in ("eq", "areeq", "root"):
            continue
        if not sig.rels and k in ("ins", "q"):
            continue
        if k == "ins":
            r = rng.choice(sorted(sig.rels))
            if r in sig.ctor_of:
                continue
            args = [lab(t) for t in sig.rels[r]]
            if any(a is None for a in args):
                continue
            ops.append(["ins", r] + args)
            ops.extend(queries(r))
            if sig.rels[r]:
                # the same tuple through another label of an equal element is C04's business; here: exact args
                ops.append((["pq", r] + args) if r in sig.preds else (["ev", r] + args[:-1]))
        elif k == "def":
            fs = [f for f in sorted(sig.funcs) if sig.definable(f)]
            if not fs:
                continue
            f = rng.choice(fs)
            cols, res = sig.funcs[f]
            args = [lab(t) for t in cols]
            if any(a is None for a in args):
                continue
            ops.append(["ev", f] + args)
            l = "%sd%d" % (res, n)
            n += 1
            ops.append(["def", f] + args + [l])
            labels[res].append(l)
            ops.append(["ev", f] + args)
        elif k == "new" and sig.types:
            t = rng.choice(sig.types)
            l = "%s%d" % (t, n)
            n += 1
            ops.append(["new", t, l])
            labels[t].append(l)
        elif k == "newenum" and sig.enums:
            e = rng.choice(sorted(sig.enums))
            ct = rng.choice(sig.enums[e]["ctors"])
            args = [lab(t) for t in ct["args"]]
            if any(a is None for a in args):
                continue
            l = "%s%d" % (e, n)
            n += 1
            ops.append(["newenum", e, ct["name"]] + args + [l])
            labels[e].append(l)
            ops.append(["cases", e, l])
        elif k == "eq":
            t = rng.choice(sig.all_types)
            if len(labels[t]) >= 2:
                a, b = rng.choice(labels[t]), rng.choice(labels[t])
                ops.append(["eq", t, a, b])
                ops.append(["areeq", t, a, b])
        elif k == "close":
            ops.append(["close"])
            ops.append(["dump"])
        elif k == "q":
            ops.extend(queries(rng.choice(sorted(sig.rels))))
        elif k == "areeq":
            t = rng.choice(sig.all_types)
            if len(labels[t]) >= 2:
                ops.append(["areeq", t, rng.choice(labels[t]), rng.choice(labels[t])])
        elif k == "root":
            t = rng.choice(sig.all_types)
            if labels[t]:
                ops.append(["root", t, rng.choice(labels[t])])
    return ops


def c05_check_history(sig, h, th, script, out):
    sh = Shadow(sig)
    synced = False
    for ev in h["events"]:
        if ev.get("e") != "op":
            continue
        if "panic" in ev:
            return _vio("panic:" + ev["panic"][:80], "API call panicked in history %s: %s\nop: %s" % (h["tag"], ev["panic"], ev.get("toks")), th, script)
        if ev.get("skipped"):
            continue
        op = ev["op"]
        t = ev.get("toks", [])

        def fail(msg):
            return _vio("c05:" + msg.split(":")[0][:60], "%s (history %s, script line %d: %s)" % (msg, h["tag"], ev["i"], " ".join(t)), th, script, {"history.txt": h["tag"]})

        if op == "dump":
            sh.resync(ev["public"])
            synced = True
            continue
        if not synced:
            continue
        if op == "close":
            if ev.get("capped"):
                _inc(out, "close-capped")
                return None
            synced = False  # wait for the dump that follows
            continue
        out["evaluations"] += 1
        if op == "new":
            if not sh.fresh(ev["ty"], ev["ret"]):
                return fail("new_%s returned id %d: not the next fresh id (%d ids allocated)" % (ev["ty"], ev["ret"], sh.alloc(ev["ty"])))
        elif op == "ins":
            r = ev["rel"]
            row = sh.rooted(sig.rels[r], ev["args"])
            if row not in [sh.rooted(sig.rels[r], x) for x in sh.rows[r]]:
                sh.rows[r].append(row)
                _cnt(out, "inserts_of_new_tuples")
            else:
                _cnt(out, "inserts_of_present_tuples")
        elif op in ("def", "newenum"):
            f = ev["rel"] if op == "def" else ev["ctor"]
            cols, res = sig.funcs[f]
            args = sh.rooted(cols, ev["args"])
            existing = [x[-1] for x in sh.rows[f] if sh.rooted(cols, x[:-1]) == args]
            if not sh.dirty_eq:
                if existing:
                    if ev["ret"] not in existing and sh.find(res, ev["ret"]) not in [sh.find(res, v) for v in existing]:
                        return fail("define_%s%s returned %d although the function is already defined there with value(s) %s" % (f, tuple(ev["args"]), ev["ret"], existing))
                    _cnt(out, "defines_of_defined_terms")
                else:
                    if not sh.fresh(res, ev["ret"]):
                        return fail("define_%s%s returned id %d, expected a fresh element (next id %d) since the function is undefined there" % (f, tuple(ev["args"]), ev["ret"], sh.alloc(res)))
                    sh.rows[f].append(args + (ev["ret"],))
                    _cnt(out, "defines_of_undefined_terms")
            else:
                # after an equate_ the lookup may legitimately miss a stale row: accept either
                if ev["ret"] == sh.alloc(res):
                    sh.fresh(res, ev["ret"])
                    sh.rows[f].append(args + (ev["ret"],))
                elif ev["ret"] > sh.alloc(res):
                    return fail("define_%s returned id %d beyond the next fresh id %d" % (f, ev["ret"], sh.alloc(res)))
        elif op == "eq":
            sh.union(ev["ty"], ev["args"][0], ev["args"][1])
            sh.dirty_eq = True
        elif op == "areeq":
            want = sh.find(ev["ty"], ev["args"][0]) == sh.find(ev["ty"], ev["args"][1])
            if ev["ret"] != want:
                return fail("are_equal_%s(%d, %d) = %s but the equivalence generated by the last closed state and the equate_ calls since says %s" % (
                    ev["ty"], ev["args"][0], ev["args"][1], ev["ret"], want))
            if want and ev["args"][0] != ev["args"][1]:
                _cnt(out, "are_equal_true_on_distinct_ids")
        elif op == "root":
            if ev["ret"] != ev["ret2"]:
                return fail("root_%s is not idempotent: root(%d) = %d, root(%d) = %d" % (ev["ty"], ev["args"][0], ev["ret"], ev["ret"], ev["ret2"]))
            if sh.find(ev["ty"], ev["ret"]) != sh.find(ev["ty"], ev["args"][0]):
                return fail("root_%s(%d) = %d lies outside the class of its argument" % (ev["ty"], ev["args"][0], ev["ret"]))
        elif op == "pq" and not sh.dirty_eq:
            r = ev["rel"]
            want = sh.rooted(sig.rels[r], ev["args"]) in [sh.rooted(sig.rels[r], x) for x in sh.rows[r]]
            if ev["ret"] != want:
                return fail("%s%s = %s but the tuples inserted so far say %s" % (r, tuple(ev["args"]), ev["ret"], want))
        elif op == "ev" and not sh.dirty_eq:
            f = ev["rel"]
            cols, res = sig.funcs[f]
            args = sh.rooted(cols, ev["args"])
            vals = [x[-1] for x in sh.rows[f] if sh.rooted(cols, x[:-1]) == args]
            if (ev["ret"] is None) != (not vals) or (vals and ev["ret"] not in vals):
                return fail("%s%s = %s but the inserted graph rows give %s" % (f, tuple(ev["args"]), ev["ret"], vals))
        elif op == "iter" and not sh.dirty_eq:
            r = ev["rel"]
            got = [tuple(x) for x in ev["ret"]]
            want = [sh.rooted(sig.rels[r], x) for x in sh.rows[r]]
            if sorted(got) != sorted(set(want)):
                return fail("iter_%s yields %s but the tuples inserted so far are %s (each expected exactly once)" % (r, sorted(got), sorted(set(want))))
        elif op == "cases" and not sh.dirty_eq:
            pass
    return None


def c05_task(task):
    out = _empty_out()
    pr = _prepare(task, out)
    if pr is None:
        return out
    th, sig, meta = pr
    rng = random.Random(sha(str(task["spec"]), str(task["seed"]), "c05"))
    hists = [("h%d" % i, 1, c05_history(rng, sig, task["nops"])) for i in range(task["histories"])]
    status, hs, script = _run(meta, hists, out)
    for h in hs:
        v = c05_check_history(sig, h, th, script, out)
        if v is not None:
            out["violations"].append(v)
        kinds = sorted(set(e["op"] for e in h["events"] if e.get("e") == "op"))
        if len(kinds) >= 6:
            out["distinct"].append(sha(th.get("text") or emit(th), json.dumps([e.get("toks") for e in h["events"] if e.get("e") == "op"]))[:16])
    if hists and not out["samples"]:
        out["samples"].append({"theory": (th.get("text") or emit(th))[:800], "history": [" ".join(map(str, o)) for o in hists[0][2]][:40]})
    return out


# ---------------------------------------------------------------------------------------------
# C06: surjective programs terminate without new elements


def c06_bound(sig, counts):
    total = 0
    for r, cols in sig.rels.items():
        p = 1
        for t in cols:
            p *= max(counts.get(t, 0), 1) if cols else 1
        total += p
    return 2 * (total + sum(counts.values())) + 4


def c06_task(task):
    out = _empty_out()
    pr = _prepare(task, out)
    if pr is None:
        return out
    th, sig, meta = pr
    if not gen.is_surjective(th):
        _cnt(out, "skipped_non_surjective_programs")
        out["counts"]["programs"] -= 1
        return out
    rng = random.Random(sha(str(task["spec"]), str(task["seed"]), "c06"))
    hists = []
    for i in range(task["histories"]):
        create, facts = gen.gen_facts(rng, sig, n_elems=(2, 4), density=0.8, max_facts=task.get("max_facts", 16))
        ops = gen.with_closes(rng, create, facts, closes=(0, 2))
        counts = {}
        ops2 = []
        nlab = 0
        for op in ops:
            if op[0] == "new":
                counts[op[1]] = counts.get(op[1], 0) + 1
            elif op[0] == "newenum":
                counts[op[1]] = counts.get(op[1], 0) + 1
            elif op[0] == "def":
                res = sig.funcs[op[1]][1]
                counts[res] = counts.get(res, 0) + 1
            if op[0] == "close":
                b = c06_bound(sig, counts)
                ops2.append(["dump"])
                ops2.append(["close", b])
                ops2.append(["dump"])
                # a fresh element right after the close must get the next dense id
                if sig.types:
                    t = rng.choice(sig.types)
                    ops2.append(["new", t, "post%d" % nlab])
                    nlab += 1
                    counts[t] = counts.get(t, 0) + 1
            else:
                ops2.append(op)
        hists.append(("h%d" % i, 1, ops2))
    status, hs, script = _run(meta, hists, out)
    for h in hs:
        evs = [e for e in h["events"] if e.get("e") == "op"]
        prev = None
        for j, ev in enumerate(evs):
            if "panic" in ev:
                out["violations"].append(_vio("panic:" + ev["panic"][:80], "API call panicked in history %s: %s" % (h["tag"], ev["panic"]), th, script))
                break
            if ev["op"] == "dump":
                prev = ev["public"] if (j + 1 < len(evs) and evs[j + 1]["op"] == "close") else prev
            if ev["op"] == "close" and prev is not None and j + 1 < len(evs) and evs[j + 1]["op"] == "dump":
                after = evs[j + 1]["public"]
                out["evaluations"] += 1
                bound = int(ev["toks"][1])
                _cnt(out, "closes")
                if ev.get("iters", 0) >= 4:
                    _cnt(out, "closes_with_3plus_iterations")
                    out["distinct"].append(sha(th.get("text") or emit(th), json.dumps(prev, sort_keys=True))[:16])
                out["counts"]["max_iterations_over_bound_permille"] = max(out["counts"].get("max_iterations_over_bound_permille", 0), int(1000 * ev.get("iters", 0) / bound))
                if ev.get("capped"):
                    grew = any(len(after["roots"][t]) > len(prev["roots"][t]) for t in sig.all_types)
                    what = "close() of a program without `!` in then-statements did not reach a fixed point within the progress bound of %d iterations%s (history %s)\nbefore: %s" % (
                        bound, " and allocated new element ids" if grew else "", h["tag"], json.dumps(prev)[:1000])
                    out["violations"].append(_vio("c06:no-fixed-point", what, th, script, {"history.txt": h["tag"]}))
                    break
                for t in sig.all_types:
                    if len(after["roots"][t]) != len(prev["roots"][t]):
                        what = "close() of a surjective program allocated new ids of type %s: %d before, %d after (history %s)" % (t, len(prev["roots"][t]), len(after["roots"][t]), h["tag"])
                        out["violations"].append(_vio("c06:new-ids", what, th, script, {"history.txt": h["tag"]}))
                        break
                    if len(after["types"][t]) > len(prev["types"][t]):
                        what = "close() of a surjective program increased the number of elements of type %s: %d -> %d (history %s)" % (t, len(prev["types"][t]), len(after["types"][t]), h["tag"])
                        out["violations"].append(_vio("c06:more-elements", what, th, script, {"history.txt": h["tag"]}))
                        break
                    if len(after["types"][t]) < len(prev["types"][t]):
                        _cnt(out, "closes_with_merges")
                if j + 2 < len(evs) and evs[j + 2]["op"] == "new":
                    nv = evs[j + 2]
                    if nv["ret"] != len(after["roots"][nv["ty"]]):
                        what = "new_%s() right after close() returned id %d, expected the next dense id %d" % (nv["ty"], nv["ret"], len(after["roots"][nv["ty"]]))
                        out["violations"].append(_vio("c06:id-after-close", what, th, script, {"history.txt": h["tag"]}))
                prev = None
    if hists and not out["samples"]:
        out["samples"].append({"theory": (th.get("text") or emit(th))[:800], "history": [" ".join(map(str, o)) for o in hists[0][2]][:40]})
    return out


# ---------------------------------------------------------------------------------------------
# C07: close_until contract, soundness of stopped states, resumption


def c07_conditions(rng, sig, init, final, labs_by_id):
    """Monotone conditions over public queries that first hold at various points of the close."""
    conds = []
    for r in sorted(sig.rels):
        ni, nf = len(init["rels"][r]), len(final["rels"][r])
        if nf > ni:
            for k in sorted(set([ni + 1, nf, rng.randint(ni + 1, nf)])):
                conds.append(["count", r, k])
        conds.append(["count", r, nf + 1])  # never true: returns false in the closed state
        irows = set(map(tuple, init["rels"][r]))
        for row in final["rels"][r]:
            if tuple(row) in irows:
                continue
            cols = sig.rels[r]
            ls = [labs_by_id.get((ty, x)) for ty, x in zip(cols, row)]
            if r in sig.preds and all(l is not None for l in ls):
                conds.append(["pred", r] + ls)
            if r in sig.funcs and all(l is not None for l in ls[:-1]):
                conds.append(["defined", r] + ls[:-1])
    for ty in sig.all_types:
        ri, rf = init["roots"][ty], final["roots"][ty]
        for a in range(len(ri)):
            for b in range(a + 1, len(ri)):
                if ri[a] != ri[b] and rf[a] == rf[b]:
                    la, lb = labs_by_id.get((ty, a)), labs_by_id.get((ty, b))
                    if la and lb:
                        conds.append(["areeq", ty, la, lb])
    rng.shuffle(conds)
    return conds


def c07_task(task):
    out = _empty_out()
    pr = _prepare(task, out, hooks=True)
    if pr is None:
        return out
    th, sig, meta = pr
    rng = random.Random(sha(str(task["spec"]), str(task["seed"]), "c07"))
    fsets = []
    h1 = []
    for i in range(task["factsets"]):
        create, facts = gen.gen_facts(rng, sig, n_elems=(2, 3), max_facts=task.get("max_facts", 9))
        fsets.append((create, facts))
        h1.append(("a%d" % i, 1, create + facts + [["dump"], ["close"], ["dump"]]))
    status, hs1, script1 = _run(meta, h1, out)
    twins = {}
    for h, (create, facts) in zip(hs1, fsets):
        evs = [e for e in h["events"] if e.get("e") == "op"]
        if any("panic" in e for e in evs) or any(e.get("capped") for e in evs if e["op"] == "close"):
            _inc(out, "twin-close-capped-or-panicked")
            continue
        dumps = [e["public"] for e in evs if e["op"] == "dump"]
        if len(dumps) != 2:
            continue
        labs = labels_of(sig, h["events"])
        twins[h["tag"]] = (create, facts, dumps[0], dumps[1], labs)
    h2 = []
    plan = {}
    for tag, (create, facts, init, final, labs) in twins.items():
        labs_by_id = {}
        for l, (ty, x) in sorted(labs.items()):
            labs_by_id.setdefault((ty, x), l)
        conds = c07_conditions(rng, sig, init, final, labs_by_id)
        chosen = conds[: task["conds"]]
        for j, c in enumerate(chosen):
            mode = "any"
            cl = list(c)
            if len(conds) > 1 and rng.random() < 0.3:
                c2 = rng.choice(conds)
                mode = rng.choice(["any", "all"])
                cl = list(c) + ["|"] + list(c2)
            t2 = "%s_c%d" % (tag, j)
            ops = create + facts + [["cu", ITER_CAP, mode] + cl, ["dump"], ["close"], ["dump"]]
            h2.append((t2, 3, ops))
            plan[t2] = (tag, "single")
        # resumption with further assertions between two early stops
        if facts and conds:
            k = rng.randrange(len(facts) + 1)
            c1, c2 = rng.choice(conds), rng.choice(conds)
            t2 = "%s_split" % tag
            ops = create + facts[:k] + [["cu", ITER_CAP, "any"] + list(c1)] + facts[k:] + [["cu", ITER_CAP, "any"] + list(c2), ["dump"], ["close"], ["dump"]]
            h2.append((t2, 1, ops))
            plan[t2] = (tag, "split")
    if not h2:
        return out
    status, hs2, script2 = _run(meta, h2, out, timeout=90)
    for h in hs2:
        tag, kind = plan[h["tag"]]
        create, facts, init, final, tlabs = twins[tag]
        evs = [e for e in h["events"] if e.get("e") == "op"]
        if any("panic" in e for e in evs):
            p = [e for e in evs if "panic" in e][0]
            out["violations"].append(_vio("panic:" + p["panic"][:80], "API call panicked in history %s: %s" % (h["tag"], p["panic"]), th, script2))
            continue
        if any(e.get("capped") for e in evs if e["op"] in ("close", "cu")):
            _inc(out, "close-capped")
            continue
        if any(e.get("skipped") for e in evs if e["op"] == "cu"):
            _inc(out, "condition-refers-to-unbound-label")
            continue
        cus = [e for e in evs if e["op"] == "cu"]
        dumps = [e["public"] for e in evs if e["op"] == "dump"]
        if len(dumps) != 2 or not cus:
            continue
        stopped, resumed = dumps
        labs = labels_of(sig, h["events"])
        F = model_from_dump(sig, final)
        cu = cus[-1]
        out["evaluations"] += 1
        # pending definitions at the moment of an early return (from the hook log)
        pending = 0
        for e in h["events"]:
            if e.get("e") == "hook" and e.get("point") == 0:
                pending = sum(len(v) for k, v in e["delta"].items() if k.endswith("_def"))
        early = cu["ret"] and cu["iters"] >= 2
        if early:
            _cnt(out, "early_returns_at_iteration_1plus")
            if pending:
                _cnt(out, "early_returns_with_pending_definitions")
        if not cu["ret"]:
            _cnt(out, "returns_false")

        def fail(key, msg, extra=""):
            out["violations"].append(_vio(key, "%s (history %s, condition: %s)%s" % (msg, h["tag"], " ".join(cu["toks"][3:]), extra), th, script2, {"history.txt": h["tag"]}))

        # (a)/(b) contract
        if cu["ret"] and not cu["cond_after"]:
            fail("c07:true-but-cond-false", "close_until returned true but the condition does not hold on the returned state")
            continue
        S = model_from_dump(sig, stopped)
        if not cu["ret"]:
            if cu["cond_after"]:
                fail("c07:false-but-cond-true", "close_until returned false although the condition holds on the returned state")
                continue
            try:
                bad = ref.satisfied(S, th)
            except ref.RefError:
                bad = []
                _inc(out, "reference-outside-fragment")
            if bad:
                fail("c07:false-but-not-closed", "close_until returned false but the returned state is not closed:\n  " + "\n  ".join(bad))
                continue
        # (c) soundness of the stopped state (only meaningful for single histories: same assertions as the twin)
        if kind == "single":
            probs = ref.embeds(S, labs, F, tlabs)
            if probs:
                fail("c07:stopped-state-unsound", "the state in which close_until stopped contains data that the closed model does not contain:\n  " + "\n  ".join(probs),
                     "\nstopped: %s\nclosed: %s" % (json.dumps(stopped)[:800], json.dumps(final)[:800]))
                continue
        # (d) resumption
        R = model_from_dump(sig, resumed)
        got, want = ref.canon(R, labs), ref.canon(F, tlabs)
        if got != want:
            diff = ref.canon_diff(got, want)
            fail("c07:resumption", "close() after an early return of close_until does not reach the model a direct close() produces:\n  " + "\n  ".join(diff),
                 "\nresumed: %s\ndirect:  %s\npending definitions at the early return: %d" % (json.dumps(got)[:900], json.dumps(want)[:900], pending))
            continue
        if early and resumed != stopped:
            _cnt(out, "resumed_closes_with_work_left")
            out["distinct"].append(sha(th.get("text") or emit(th), h["tag"], json.dumps(stopped, sort_keys=True))[:16])
    if h2 and not out["samples"]:
        out["samples"].append({"theory": (th.get("text") or emit(th))[:800], "history": [" ".join(map(str, o)) for o in h2[0][2]][:40]})
    return out


# ---------------------------------------------------------------------------------------------
# C15: enum elements always destructure


def c15_api_surface(sig, module_text):
    """Public &mut self methods returning an enum-typed id, other than new_<enum> / define_<ctor>."""
    import re
    from .theory import snake
    bad = []
    allowed = set("new_" + snake(e) for e in sig.enums) | set("define_" + snake(c) for c in sig.ctor_of)
    for m in re.finditer(r"pub fn (\w+)\s*\(\s*&mut self[^)]*\)\s*->\s*(\w+)", module_text):
        name, ret = m.group(1), m.group(2)
        if ret in sig.enums and name not in allowed:
            bad.append("pub fn %s(&mut self, ..) -> %s" % (name, ret))
    for e in sig.enums:
        if re.search(r"pub fn new_%s_internal" % snake(e), module_text):
            bad.append("new_%s_internal is public" % snake(e))
    return bad


def c15_task(task):
    out = _empty_out()
    pr = _prepare(task, out)
    if pr is None:
        return out
    th, sig, meta = pr
    if not sig.enums:
        out["counts"]["programs"] -= 1
        _cnt(out, "skipped_programs_without_enums")
        return out
    with open(os.path.join(meta["dir"], "out", th["name"] + ".eql.rs")) as f:
        module_text = f.read()
    out["evaluations"] += 1
    surf = c15_api_surface(sig, module_text)
    if surf:
        out["violations"].append(_vio("c15:api-surface", "the generated API offers a way to create an enum element other than through a constructor:\n  " + "\n  ".join(surf), th, ""))
    rng = random.Random(sha(str(task["spec"]), str(task["seed"]), "c15"))
    hists = []
    for i in range(task["histories"]):
        create, facts = gen.gen_facts(rng, sig, n_elems=(1, 3), max_facts=10)
        # more enum elements, equations between enum elements, closes
        extra = []
        labels = {t: [o[-1] for o in create if (o[0] == "new" and o[1] == t) or (o[0] == "newenum" and o[1] == t)] for t in sig.all_types}
        n = 0
        for e in sig.enums.values():
            for _ in range(rng.randint(1, 4)):
                cts = [c for c in e["ctors"] if all(labels[t] for t in c["args"])]
                if not cts:
                    break
                ct = rng.choice(cts)
                lab = "%sx%d" % (e["name"], n)
                n += 1
                extra.append(["newenum", e["name"], ct["name"]] + [rng.choice(labels[t]) for t in ct["args"]] + [lab])
                extra.append(["cases", e["name"], lab])
                labels[e["name"]].append(lab)
            if len(labels[e["name"]]) >= 2 and rng.random() < 0.6:
                extra.append(["eq", e["name"], rng.choice(labels[e["name"]]), rng.choice(labels[e["name"]])])
        ops = gen.with_closes(rng, create + extra[: len(extra) // 2], facts + extra[len(extra) // 2:], closes=(0, 2))
        ops2 = []
        for op in ops:
            ops2.append(op)
            if op[0] == "close":
                ops2.append(["sweep"])
        hists.append(("h%d" % i, 1, ops2))
    status, hs, script = _run(meta, hists, out)
    for h in hs:
        dirty_eq = False
        last_roots = {}
        for ev in h["events"]:
            if ev.get("e") != "op":
                continue
            if "panic" in ev:
                out["violations"].append(_vio("panic:" + ev["panic"][:80], "API call panicked in history %s: %s\nop: %s" % (h["tag"], ev["panic"], ev.get("toks")), th, script))
                break
            if ev["op"] == "close" and ev.get("capped"):
                _inc(out, "close-capped")
                break
            if ev["op"] == "sweep":
                last_roots = ev["public"]["roots"]
            if ev["op"] == "eq":
                dirty_eq = True
            if ev["op"] == "close":
                dirty_eq = False
            if ev["op"] == "cases" and not ev.get("skipped") and not dirty_eq:
                # the element just created through new_<enum>(case) must list that case
                prev = [e2 for e2 in h["events"] if e2.get("e") == "op" and e2.get("i") == ev["i"] - 1]
                if prev and prev[0]["op"] == "newenum" and not prev[0].get("skipped"):
                    out["evaluations"] += 1
                    cols_c = sig.funcs[prev[0]["ctor"]][0]

                    def rt(ty, x):
                        r = last_roots.get(ty, [])
                        return r[x] if x < len(r) else x
                    want = [prev[0]["ctor"]] + [rt(t, x) for t, x in zip(cols_c, prev[0]["args"])]
                    got = [[c[0]] + [rt(t, x) for t, x in zip(sig.funcs[c[0]][0], c[1:])] for c in ev["ret"]]
                    if want not in got:
                        out["violations"].append(_vio("c15:new-enum-case-missing", "new_%s(%s) returned %d but %s_cases of it is %s" % (
                            prev[0]["ty"], want, prev[0]["ret"], prev[0]["ty"], ev["ret"]), th, script, {"history.txt": h["tag"]}))
                        break
            if ev["op"] == "sweep":
                pub, sw = ev["public"], ev["sweep"]
                for E, lst in sw["case1"].items():
                    for idv, c in enumerate(lst):
                        out["evaluations"] += 1
                        rid = pub["roots"][E][idv]
                        if c == "panic":
                            out["violations"].append(_vio("c15:case-panics", "%s_case(%d) panics after close(): the element is not the value of any constructor application\nmodel: %s" % (
                                E, idv, json.dumps(pub)[:1000]), th, script, {"history.txt": h["tag"]}))
                            break
                        ctor, args = c[0][0], c[0][1:]
                        cols = sig.funcs[ctor][0]
                        rargs = [pub["roots"][t][x] for t, x in zip(cols, args)]
                        if rargs + [rid] not in pub["rels"][ctor]:
                            out["violations"].append(_vio("c15:case-wrong", "%s_case(%d) = %s%s but that constructor application is not equal to the element (root %d)" % (
                                E, idv, ctor, tuple(args), rid), th, script, {"history.txt": h["tag"]}))
                            break
                        if rid != idv:
                            _cnt(out, "case_queries_on_merged_enum_elements")
                out["distinct"].append(sha(th.get("text") or emit(th), json.dumps(pub, sort_keys=True))[:16])
    if hists and not out["samples"]:
        out["samples"].append({"theory": (th.get("text") or emit(th))[:800], "history": [" ".join(map(str, o)) for o in hists[0][2]][:40]})
    return out


def c15_compile_side(res):
    """Programs in which a rule makes a non-constructor term of enum type defined must be rejected."""
    from .util import EQLOG_BIN, WORK, run
    import tempfile
    cases = []
    base = "type Ta;\nenum Ea {\n    Cax(Ta),\n    Cbx()\n}\nfunc fz(Ta) -> Ea;\nfunc gz(Ea) -> Ea;\npred pa(Ea);\n"
    bad_rules = [
        ("then-defined", "rule ra {\n    if x: Ta;\n    then fz(x)!;\n}\n"),
        ("then-defined-var", "rule ra {\n    if x: Ta;\n    then y := fz(x)!;\n    then pa(y);\n}\n"),
        ("then-defined-nested", "rule ra {\n    if x: Ta;\n    then gz(Cax(x))!;\n}\n"),
        ("then-defined-in-branch", "rule ra {\n    if x: Ta;\n    branch {\n        then fz(x)!;\n    } along {\n        then Cbx()!;\n    }\n}\n"),
        ("then-defined-in-match", "rule ra {\n    if e: Ea;\n    match e {\n        Cax(x) => {\n            then fz(x)!;\n        }\n        Cbx() => {}\n    }\n}\n"),
    ]
    good_rules = [
        ("ctor-defined", "rule ra {\n    if x: Ta;\n    then Cax(x)!;\n}\n"),
        ("ctor-defined-var", "rule ra {\n    if x: Ta;\n    then y := Cax(x)!;\n    then pa(y);\n}\n"),
        ("graph-insert", "rule ra {\n    if x: Ta;\n    if e = Cax(x);\n    then fz(x) = e;\n}\n"),
    ]
    d = tempfile.mkdtemp(prefix="c15-", dir=WORK)
    try:
        for kind, rules in (("reject", bad_rules), ("accept", good_rules)):
            for name, rule in rules:
                sd = os.path.join(d, name)
                os.makedirs(os.path.join(sd, "src"))
                with open(os.path.join(sd, "src", "th.eql"), "w") as f:
                    f.write(base + rule)
                rc, o, e = run([EQLOG_BIN, "src", "out"], cwd=sd, timeout=120)
                res.evaluations += 1
                res.count("compile_side_programs")
                if kind == "reject" and rc == 0:
                    res.violation("c15:accepted-nonctor-defined:" + name, "the compiler accepted a rule that makes a non-constructor term of enum type defined (%s):\n%s" % (name, base + rule),
                                  {"th.eql": base + rule})
                elif kind == "reject" and rc != 1:
                    res.violation("c15:compiler-crash:" + name, "compiler exit status %s on\n%s\n%s" % (rc, base + rule, e[-800:]), {"th.eql": base + rule})
                elif kind == "accept" and rc != 0:
                    res.violation("c15:rejected-ctor-defined:" + name, "the compiler rejected a legitimate constructor definition (%s): %s" % (name, e[:500]), {"th.eql": base + rule})
    finally:
        import shutil
        shutil.rmtree(d, ignore_errors=True)


# ---------------------------------------------------------------------------------------------
# C19: component build == module build


def _norm(text):
    return "\n".join(l.strip() for l in text.splitlines() if l.strip())


def split_mods(text):
    """Top-level `mod name { ... }` blocks of a generated module (brace matching; the generated
    code is not indented). Returns ({name: inner text}, text without those blocks)."""
    import re
    mods = {}
    rest = []
    pos = 0
    for m in re.finditer(r"^mod (\w+) \{\n", text, re.M):
        if m.start() < pos:
            continue
        depth = 1
        i = m.end()
        while i < len(text) and depth > 0:
            c = text[i]
            if c == "{":
                depth += 1
            elif c == "}":
                depth -= 1
            i += 1
        mods[m.group(1)] = text[m.end(): i - 1]
        rest.append(text[pos:m.start()])
        pos = i
    rest.append(text[pos:])
    return mods, "".join(rest)


def c19_text_checks(th, mod_meta, comp_meta):
    import re
    name = th["name"]
    bad = []
    with open(os.path.join(mod_meta["dir"], "out", name + ".eql.rs")) as f:
        mod_text = f.read()
    with open(os.path.join(comp_meta["dir"], "out", name + ".eql.rs")) as f:
        cmod_text = f.read()
    comp_dir = os.path.join(comp_meta["dir"], "comp", name + ".eql")
    comps = {}
    for fn in sorted(os.listdir(comp_dir)):
        if fn.endswith(".rs"):
            with open(os.path.join(comp_dir, fn)) as f:
                comps[fn[:-3]] = f.read()
    # env structs declared in the component-mode module file vs in each component source
    def structs(text):
        return {m.group(1): _norm(m.group(0)) for m in re.finditer(r"pub struct (\w+Env)<'a> \{.*?^\}", text, re.S | re.M)}
    # top-level declarations of the module file (the ones after the embedded modules, or all in component mode)
    top = structs(split_mods(cmod_text)[1])
    comp_structs = {}
    for cn, ct in comps.items():
        for k, v in structs(ct).items():
            comp_structs[k] = (cn, v)
    for k, v in top.items():
        if k not in comp_structs:
            bad.append("module declares %s but no component does" % k)
        elif comp_structs[k][1] != v:
            bad.append("environment struct %s differs between the module and component %s:\n--- module\n%s\n--- component\n%s" % (k, comp_structs[k][0], v, comp_structs[k][1]))
    for k in comp_structs:
        if k not in top:
            bad.append("component %s declares %s which the module does not declare" % (comp_structs[k][0], k))
    # imported vs exported symbols (with the parameter type named at both ends)
    imports = dict(re.findall(r'#\[link_name = "(\w+)"\]\s*safe fn \w+\(env: (\w+)\);', cmod_text))
    exports = {}
    for cn, ct in comps.items():
        for sym, ty in re.findall(r"#\[unsafe\(no_mangle\)\]\s*pub fn (\w+)\(mut env: (\w+)\)", ct):
            exports[sym] = (cn, ty)
    for sym, ty in imports.items():
        if sym not in exports:
            bad.append("module imports symbol %s which no component exports" % sym)
        elif exports[sym][1] != ty:
            bad.append("symbol %s: module passes %s, component %s expects %s" % (sym, ty, exports[sym][0], exports[sym][1]))
        elif exports[sym][0] != sym:
            bad.append("symbol %s is exported by the component file %s" % (sym, exports[sym][0]))
    for sym in exports:
        if sym not in imports:
            bad.append("component %s exports %s which the module never imports" % (exports[sym][0], sym))
    # rule code: module-mode embedded submodules vs component sources
    emb_raw, strip_m0 = split_mods(mod_text)
    embedded = {k: _norm(v) for k, v in emb_raw.items()}
    prefix = "eql_%d_%s_" % (len(name), name)
    for cn, ct in comps.items():
        short = cn[len(prefix):] if cn.startswith(prefix) else cn
        if short not in embedded:
            bad.append("component %s has no embedded counterpart in the module build" % cn)
        elif embedded[short] != _norm(ct):
            a, b = embedded[short].splitlines(), _norm(ct).splitlines()
            j = next((i for i in range(min(len(a), len(b))) if a[i] != b[i]), min(len(a), len(b)))
            bad.append("rule code of %s differs between module build and component build near line %d:\n  module:    %s\n  component: %s" % (
                short, j, a[j] if j < len(a) else "<end>", b[j] if j < len(b) else "<end>"))
    for short in embedded:
        if prefix + short not in comps:
            bad.append("module build embeds %s but the component build has no such component" % short)
    # the non-rule part of the module file must be identical in both build types
    strip_m = strip_m0
    strip_c = split_mods(cmod_text)[1]
    def body(t):
        i = t.find("#[allow(unused)]\nconst ")
        j = t.rfind("// DIGEST:")
        return _norm(t[i: j if j >= 0 else len(t)]) if i >= 0 else None
    bm, bc = body(strip_m), body(strip_c)
    if bm is not None and bc is not None and bm != bc:
        a, b = bm.splitlines(), bc.splitlines()
        j = next((i for i in range(min(len(a), len(b))) if a[i] != b[i]), min(len(a), len(b)))
        bad.append("model code differs between the two build types near: %s | %s" % (a[j] if j < len(a) else "<end>", b[j] if j < len(b) else "<end>"))
    return bad, len(comps)


def c19_task(task):
    out = _empty_out()
    pr = _prepare(task, out)
    if pr is None:
        return out
    th, sig, meta = pr
    cmeta = driver.compile_theory(th, mode="component")
    out["evaluations"] += 1
    if not cmeta["ok"]:
        what = "the program builds as a single module but not as module + component libraries (stage %s):\n%s" % (cmeta["stage"], cmeta["stderr"][-1500:])
        out["violations"].append(_vio("c19:component-build-fails:" + cmeta["stage"], what, th, ""))
        return out
    try:
        bad, ncomp = c19_text_checks(th, meta, cmeta)
    except Exception as e:
        _inc(out, "text-check-harness-error")
        out.setdefault("notes", []).append(repr(e)[:300])
        bad, ncomp = [], 0
    _cnt(out, "components_compared", ncomp)
    if bad:
        out["violations"].append(_vio("c19:text:" + bad[0].split(":")[0][:50], "module build and component build disagree textually:\n  " + "\n  ".join(bad[:5]), th, ""))
        return out
    rng = random.Random(sha(str(task["spec"]), str(task["seed"]), "c19"))
    hists = []
    for i in range(task["histories"]):
        ops = [(["close", 10] if o[0] == "close" else o) for o in gen.gen_history(rng, sig, closes=(0, 2), n_elems=(2, 3), max_facts=10)]
        ops.append(["probe"])
        hists.append(("h%d" % i, 3 if i % 2 == 0 else 2, ops))
    s1, h1, raw1, e1 = driver.run_script(meta, hists, timeout=90)
    s2, h2, raw2, e2 = driver.run_script(cmeta, hists, timeout=90)
    if s1 != "ok" or s2 != "ok":
        if s1 == "ok" and s2.startswith("crash"):
            out["violations"].append(_vio("c19:component-driver-crash", "the component-linked driver crashed (%s) on a script the module-linked driver runs fine\n%s" % (s2, e2[-800:]), th, driver.script_text(hists)))
        else:
            _inc(out, "driver-" + s1 + "/" + s2)
        return out
    script = driver.script_text(hists)
    for a, b in zip(raw1.split('{"e":"reset"'), raw2.split('{"e":"reset"')):
        if not a.strip():
            continue
        out["evaluations"] += 1
        if a != b:
            la, lb = a.splitlines(), b.splitlines()
            j = next((i for i in range(min(len(la), len(lb))) if la[i] != lb[i]), min(len(la), len(lb)))
            what = "the same history gives different event logs on the two builds; first difference at event %d:\n  module:    %s\n  component: %s" % (
                j, (la[j] if j < len(la) else "<end>")[:600], (lb[j] if j < len(lb) else "<end>")[:600])
            out["violations"].append(_vio("c19:behaviour", what, th, script))
            break
        if a.count('"iters":') and any('"iters":%d' % k in a for k in range(3, 40)):
            out["distinct"].append(sha(th.get("text") or emit(th), a)[:16])
    if task.get("memcheck") and not out["violations"]:
        # sanitizer shard: the component-linked driver under valgrind memcheck (the struct of references
        # crossing the extern "Rust" boundary by value is where a divergence of the two declarations
        # would become a wild read/write); errors are fatal (exit 97), leaks are not judged
        sub = hists[:task["memcheck"]]
        s3, h3, raw3, e3 = driver.run_script(cmeta, sub, timeout=900, script_name="script_c19_memcheck.txt",
                                              wrapper=("valgrind", "-q", "--error-exitcode=97", "--errors-for-leak-kinds=none", "--leak-check=no"))
        if s3 == "ok":
            out["evaluations"] += 1
            _cnt(out, "memcheck_runs_clean")
            _cnt(out, "memcheck_histories", len(sub))
            ref3 = '{"e":"reset"'.join(raw1.split('{"e":"reset"')[:len(sub) + 1])
            if raw3.strip() and raw3.split('{"e":"end"')[0].strip() != ref3.split('{"e":"end"')[0].strip():
                out["violations"].append(_vio("c19:behaviour-under-memcheck", "the component-linked driver gives a different log under valgrind than the module-linked driver natively", th, driver.script_text(sub)))
        elif s3 == "crash:97":
            out["violations"].append(_vio("c19:memcheck-error", "valgrind memcheck reports an invalid memory access in the component-linked driver:\n%s" % e3[-2500:], th, driver.script_text(sub), {"valgrind.txt": e3}))
        else:
            _inc(out, "memcheck-" + s3.split(":")[0])
    if hists and not out["samples"]:
        out["samples"].append({"theory": (th.get("text") or emit(th))[:800], "history": [" ".join(map(str, o)) for o in hists[0][2]][:30], "components": ncomp})
    return out


# ---------------------------------------------------------------------------------------------
# C20: deterministic evaluation across processes


def c20_task(task):
    from .util import env_with
    out = _empty_out()
    pr = _prepare(task, out)
    if pr is None:
        return out
    th, sig, meta = pr
    rng = random.Random(sha(str(task["spec"]), str(task["seed"]), "c20"))
    hists = []
    for i in range(task["histories"]):
        ops = gen.gen_history(rng, sig, closes=(0, 2), n_elems=(2, 4), max_facts=12)
        ops2 = []
        for op in ops:
            ops2.append(op)
            if op[0] in ("close",):
                ops2[-1] = ["close", 12]
                ops2.append(["probe"])
        for r in sorted(sig.rels):
            if sig.rels[r]:
                ops2.append(["iter", r])
        for t in sig.all_types:
            ops2.append(["itertype", t])
        hists.append(("h%d" % i, 3 if i % 4 == 0 else 2, ops2))
    script = driver.script_text(hists)
    variants = [
        ("plain", (), env_with()),
        ("aslr-off", ("setarch", "x86_64", "-R"), env_with()),
        ("big-env", (), env_with({"VF_PAD_%d" % i: "x" * 997 for i in range(40)})),
        ("malloc-perturb", (), env_with({"MALLOC_PERTURB_": "165", "MALLOC_ARENA_MAX": "1", "MALLOC_TOP_PAD_": "65536"})),
        ("small-env", (), {"PATH": "/usr/bin:/bin"}),
        ("repeat", (), env_with()),
    ]
    if task.get("valgrind"):
        variants.append(("valgrind", ("valgrind", "-q", "--error-exitcode=0"), env_with()))
    outs = []
    import time as _time
    slow = False
    for name, wrapper, env in variants:
        if slow and name not in ("plain", "repeat"):
            continue  # heavy theory: keep the run bounded, compare only plain vs repeat
        t0 = _time.time()
        st, hs, raw, err = driver.run_script(meta, hists, timeout=900 if name == "valgrind" else 40, wrapper=wrapper, env=env, script_name="script_c20.txt")
        if name == "plain" and _time.time() - t0 > 6:
            slow = True
            _cnt(out, "heavy_theories_compared_on_two_runs_only")
        if st != "ok":
            _inc(out, "driver-%s-%s" % (name, st.split(":")[0]))
            if name == "plain":
                return out  # too heavy for the watchdog: no verdict for this theory
            continue
        outs.append((name, raw))
    if task.get("asan") and outs and not slow:
        # sanitizer variant: the same module and the runtime compiled with AddressSanitizer (nightly);
        # a report is fatal (the process aborts), and the transcript must still equal the plain one
        from . import build as _build
        try:
            artl = _build.build_asan_rtlib()
            ameta = driver.compile_theory(th, rtlib=artl, rustc=("rustc", "+nightly"), tag="asan",
                                          extra_rustc=("-Zsanitizer=address", "-Cforce-frame-pointers=yes", "--target", "x86_64-unknown-linux-gnu"))
        except RuntimeError as e:
            ameta = {"ok": False, "stage": "asan-rtlib", "stderr": str(e)}
        if not ameta["ok"]:
            _inc(out, "asan-build-failed:" + ameta["stage"])
            out.setdefault("notes", []).append(ameta["stderr"][-500:])
        else:
            st, hs, raw, err = driver.run_script(ameta, hists, timeout=300, env=env_with({"ASAN_OPTIONS": "halt_on_error=1:abort_on_error=0:detect_leaks=0:exitcode=98"}), script_name="script_c20.txt")
            if st == "ok":
                outs.append(("asan-build", raw))
                _cnt(out, "asan_runs_clean")
            elif "AddressSanitizer" in err:
                out["violations"].append(_vio("c20:asan-report", "AddressSanitizer reports a memory error while the history runs:\n%s" % err[:3000], th, script, {"asan.txt": err}))
                return out
            else:
                _inc(out, "driver-asan-" + st.split(":")[0])
    if len(outs) < 2:
        return out
    base = outs[0]
    for name, raw in outs[1:]:
        out["evaluations"] += 1
        _cnt(out, "process_pairs_compared")
        if raw != base[1]:
            la, lb = base[1].splitlines(), raw.splitlines()
            j = next((i for i in range(min(len(la), len(lb))) if la[i] != lb[i]), min(len(la), len(lb)))
            what = "two runs of the same history in fresh processes (%s vs %s) produced different transcripts; first difference at line %d:\n  %s: %s\n  %s: %s" % (
                base[0], name, j, base[0], (la[j] if j < len(la) else "<end>")[:700], name, (lb[j] if j < len(lb) else "<end>")[:700])
            out["violations"].append(_vio("c20:nondeterministic", what, th, script))
            break
    nontriv = base[1].count('"e":"cond"') > 2 * len(hists)
    if nontriv:
        out["distinct"].append(sha(th.get("text") or emit(th), base[1])[:16])
    _cnt(out, "transcript_bytes_compared", len(base[1]) * (len(outs) - 1))
    if hists and not out["samples"]:
        out["samples"].append({"theory": (th.get("text") or emit(th))[:600], "history": [" ".join(map(str, o)) for o in hists[0][2]][:30], "variants": [v[0] for v in outs]})
    return out


# ---------------------------------------------------------------------------------------------
# aggregation


def aggregate(res, outs):
    feats = {}
    for o in outs:
        if "harness_error" in o:
            res.inconcl("harness-error")
            res.cov.setdefault("harness_errors", [])
            if len(res.cov["harness_errors"]) < 5:
                res.cov["harness_errors"].append(o["harness_error"][-800:])
            continue
        res.evaluations += o["evaluations"]
        res.distinct.update(o["distinct"])
        for k, v in o["counts"].items():
            if k.startswith("max_"):
                res.maxi(k, v)
            else:
                res.count(k, v)
        for k, v in o["inconclusive"].items():
            res.inconcl(k, v)
        for k, v in o["features"].items():
            feats[k] = feats.get(k, 0) + v
        for s in o["samples"]:
            res.sample(s, cap=3)
        for v in o["violations"]:
            res.violation(v["key"], v["what"], v["files"])
        if o.get("notes") and len(res.cov.setdefault("notes", [])) < 5:
            res.cov["notes"].extend(o["notes"][:2])
    res.cov["rule_shape_features"] = feats


PROFILES_ALL = ["mixed", "nonsurj", "diag", "eqprem", "surj", "enum", "mixed", "wide"]


def c01(tier, replay=None):
    res = Result("C01", tier)
    res.rule = ("one evaluation = one dump taken right after a close() returned, re-checked by naive evaluation of every source rule stage and of "
                "single-valuedness; non-trivial = the close ran >= 2 rule iterations or merged elements; distinct = hash(theory text, dump)")
    res.assumptions = ["reference semantics of /verif/vf/ref.py (sequential if/then reading, branch/match scoping as in branches.eql/matches.eql)",
                       "closes that hit the iteration cap (%d) are inconclusive, never violations" % ITER_CAP]
    q = tier == "quick"
    specs = specs_for(tier, 130, 1500, PROFILES_ALL)
    tasks = [{"spec": s, "seed": seed(), "histories": 30 if q else 80, "n_elems": (2, 4) if q else (2, 5), "max_facts": 14 if q else 20} for s in specs]
    aggregate(res, pmap(c01_task, tasks))
    return res.finish()


def c02(tier, replay=None):
    res = Result("C02", tier)
    res.rule = ("one evaluation = one closed dump compared, after naming every element by its least term over the caller's labels, with the "
                "reference chase of the same assertions; non-trivial = the free model has derived elements, forced merges of caller elements or "
                "derived tuples; distinct = hash(theory text, canonical free model)")
    res.assumptions = ["reference chase bounded (rounds/elements); inputs beyond the bound are counted as inconclusive",
                       "theories with `model` declarations are C17's"]
    q = tier == "quick"
    specs = specs_for(tier, 130, 1500, PROFILES_ALL)
    tasks = [{"spec": s, "seed": seed(), "histories": 25 if q else 70, "n_elems": (2, 3), "max_facts": 10 if q else 14} for s in specs]
    aggregate(res, pmap(c02_task, tasks))
    return res.finish()


def c03(tier, replay=None):
    res = Result("C03", tier)
    res.rule = ("one evaluation = one pair (variant history, base history) of the same fact set compared under canonical naming, or one "
                "close-on-closed-model idempotence comparison (public dump incl. root table byte-equal); non-trivial = the variant contains "
                "intermediate closes (so some premise atoms were old when later ones arrived); distinct = hash(theory, variant, canonical model)")
    res.assumptions = ["no reference model involved: pure metamorphic comparison"]
    q = tier == "quick"
    specs = specs_for(tier, 110, 1200, PROFILES_ALL)
    tasks = [{"spec": s, "seed": seed(), "factsets": 6 if q else 16, "variants": 6 if q else 10, "n_elems": (2, 4), "max_facts": 12 if q else 16} for s in specs]
    aggregate(res, pmap(c03_task, tasks))
    return res.finish()


def c04(tier, replay=None):
    res = Result("C04", tier)
    res.rule = ("one evaluation = one quiescent-point observation (a condition evaluation inside close_until, or right after close() returned) "
                "checked against I1-I6: all index copies of a relation decode to one tuple set per age, new/old disjoint, diagonal copies = rows "
                "satisfying the pattern, ids are roots and members of the type sets, rows are in the row lists of their elements, uprooted lists "
                "empty, iterators = copies without duplicates, point queries on all id tuples (roots and non-roots) = iterator, enum cases = "
                "constructor graphs; non-trivial = new and old rows coexist, or a diagonal copy with both kinds of rows, or non-root substitutions exist")
    res.assumptions = ["row lists may hold stale rows by design (one-directional check)", "functions need not be single-valued mid-close"]
    q = tier == "quick"
    specs = specs_for(tier, 110, 1200, PROFILES_ALL)
    tasks = [{"spec": s, "seed": seed(), "histories": 12 if q else 40, "max_facts": 10} for s in specs]
    aggregate(res, pmap(c04_task, tasks))
    return res.finish()


def c05(tier, replay=None):
    res = Result("C05", tier)
    res.rule = ("one evaluation = one API return value (new_/define_/are_equal_/root_/predicate/evaluation/iterator) checked against a shadow "
                "union-find and shadow tuple lists re-seeded from the dump after each close(); distinct non-trivial = histories using >= 6 op kinds")
    res.assumptions = ["'immediately visible' clauses only while no equate_ happened since the last close, as the property states"]
    q = tier == "quick"
    specs = specs_for(tier, 110, 1200, PROFILES_ALL)
    tasks = [{"spec": s, "seed": seed(), "histories": 25 if q else 80, "nops": 30 if q else 45} for s in specs]
    aggregate(res, pmap(c05_task, tasks))
    return res.finish()


def c06(tier, replay=None):
    res = Result("C06", tier)
    res.rule = ("one evaluation = one close() of a program without `!` in then-statements: iterations <= 2*(sum over relations of the product of "
                "type sizes + number of elements) + 4 (every non-final iteration must add a tuple or merge), no new ids, no more elements per "
                "type, next new_ id dense; non-trivial = close with >= 3 rule iterations; distinct = hash(theory, input model)")
    res.assumptions = ["termination is restated as bounded progress; wall clock is never a verdict"]
    q = tier == "quick"
    specs = specs_for(tier, 160, 1800, ["surj", "diag", "eqprem", "surj", "mixed", "enum"])
    tasks = [{"spec": s, "seed": seed(), "histories": 25 if q else 70} for s in specs]
    aggregate(res, pmap(c06_task, tasks))
    return res.finish()


def c07(tier, replay=None):
    res = Result("C07", tier)
    res.rule = ("one evaluation = one close_until return: (a) true => condition holds on the returned state, (b) false => state closed (naive "
                "re-evaluation of all rules) and condition false, (c) every element/tuple/equality of the stopped state maps into the model a "
                "direct close() of the same assertions produces, (d) close() after the early return reaches exactly that model (canonical naming); "
                "conditions are monotone public queries chosen to first hold at different iterations; non-trivial = early return at iteration >= 1 "
                "with work left for the resuming close; distinct = hash(theory, history, stopped state)")
    res.assumptions = ["the twin direct close() is the reference for (c)/(d); its own freeness is C02's", "hooked build (H2) only to count pending definitions at early returns"]
    q = tier == "quick"
    specs = specs_for(tier, 120, 1300, ["nonsurj", "mixed", "nonsurj", "diag", "eqprem", "enum", "surj", "nonsurj"])
    tasks = [{"spec": s, "seed": seed(), "factsets": 5 if q else 14, "conds": 4 if q else 6} for s in specs]
    aggregate(res, pmap(c07_task, tasks))
    return res.finish()


def c15(tier, replay=None):
    res = Result("C15", tier)
    res.rule = ("one evaluation = one enum element destructured with <enum>_case at a quiescent point (no panic; constructor application equal "
                "to the element), one new_<enum>(case)/cases round trip, one API-surface scan of a generated module, or one compile-side program "
                "(non-constructor enum-typed term made defined must be rejected); distinct = hash(theory, closed model)")
    res.assumptions = ["enum elements are created only through the public API of the generated module"]
    q = tier == "quick"
    specs = specs_for(tier, 90, 900, ["enum"], corpus=True)
    tasks = [{"spec": s, "seed": seed(), "histories": 25 if q else 70} for s in specs]
    aggregate(res, pmap(c15_task, tasks))
    c15_compile_side(res)
    return res.finish()


def c19(tier, replay=None):
    res = Result("C19", tier)
    res.rule = ("one evaluation = one program built both ways and compared textually (env structs, imported/exported symbols with parameter types, "
                "rule code, model code) or one history replayed on both builds with byte comparison of the full event logs (ids, return values, "
                "iteration order, per-iteration private dumps); non-trivial = history with a close of >= 2 rule iterations; distinct = hash(theory, log)")
    res.assumptions = ["component libraries compiled by the compiler's own rustc invocations (real rustc, opt-level 0)"]
    q = tier == "quick"
    specs = specs_for(tier, 50, 500, PROFILES_ALL)
    tasks = [{"spec": s, "seed": seed(), "histories": 12 if q else 40, "memcheck": (3 if i % 4 == 0 else 0) if q else (8 if i % 3 == 0 else 0)} for i, s in enumerate(specs)]
    aggregate(res, pmap(c19_task, tasks))
    return res.finish()


def c20(tier, replay=None):
    res = Result("C20", tier)
    res.rule = ("one evaluation = one pair of fresh-process runs of the same script (ASLR off, padded environment, malloc perturbation, minimal "
                "environment, plain repeat, an AddressSanitizer build of module + runtime for every 6th (quick) / 3rd (thorough) theory%s) compared byte-wise on the whole transcript: ids, return values, iteration order of every public "
                "iterator and of every private index copy at every condition evaluation; non-trivial = transcript with multi-iteration closes; "
                "distinct = hash(theory, transcript)" % ("" if tier == "quick" else ", valgrind"))
    res.assumptions = ["the driver and probe themselves use ordered containers only"]
    q = tier == "quick"
    specs = specs_for(tier, 80, 1200, PROFILES_ALL)
    tasks = [{"spec": s, "seed": seed(), "histories": 8 if q else 20, "valgrind": (not q) and (i % 10 == 0), "asan": i % (6 if q else 3) == 0} for i, s in enumerate(specs)]
    aggregate(res, pmap(c20_task, tasks))
    # runtime part: morphism_toposort called repeatedly on identical tables must return the identical
    # sequence (the model-level transcripts above rarely have several source objects with morphisms)
    from . import checks_rt
    d0, ops0 = res.distinct, res.cov.get("ops_by_kind")
    s0 = seed()
    checks_rt.run_jobs(res, [(["topo-det", "--seed", s0 * 10 + i, "--episodes", 4000 if q else 100000, "--max-obj", 9, "--max-mor", 14, "--splits", 4], 900) for i in range(4)], [])
    res.cov["toposort_repeat_distinct_sequences"] = res.distinct
    res.cov["toposort_repeat_ops_by_kind"] = res.cov.pop("ops_by_kind", None)
    if ops0 is not None:
        res.cov["ops_by_kind"] = ops0
    res.distinct = d0
    return res.finish()


TABLE = {"C01": c01, "C02": c02, "C03": c03, "C04": c04, "C05": c05, "C06": c06, "C07": c07, "C15": c15, "C19": c19, "C20": c20}
