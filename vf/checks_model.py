"""Model-level checks: C01-C07, C15, C19, C20 (generated module + runtime, observed through the
driver's event log and decided by the reference semantics / invariant checkers)."""
import copy
import json
import os
import random

from . import driver, gen, modelrun, ref
from .modelrun import (attach_tokens, labels_of, model_from_dump, pmap, reference_input, theory_feature_hist,
                       theory_pool, write_case)
from .theory import Sig, emit
from .util import REPLAYS, Result, seed, sha

ITER_CAP = 30


def setup():
    """setup_cmd hook: nothing to precompute beyond the build (theories compile on demand, cached)."""
    return 0


def load_theory(spec):
    if spec[0] == "gen":
        _, s, prof = spec
        th = gen.gen_theory(s, prof, name="th")
        return th
    if spec[0] == "file":
        from . import parser
        return parser.load(spec[1])
    raise ValueError(spec)


def specs_for(tier, nq, nt, profiles, base=0, corpus=True):
    specs = [("gen", s, p) for (s, p) in theory_pool(tier, nq, nt, profiles, base)]
    if corpus:
        try:
            from . import parser
            specs = [("file", p) for p in parser.corpus_files()] + specs
        except ImportError:
            pass
    return specs


def _vio(key, what, th, script, extra=None):
    files = {"theory.eql": th.get("text") or emit(th), "script.txt": script}
    files["theory.ast.json"] = json.dumps({k: v for k, v in th.items() if k != "text"}, indent=1)
    if extra:
        files.update(extra)
    return {"key": key, "what": what, "files": files}


def _empty_out():
    return {"evaluations": 0, "distinct": [], "counts": {}, "violations": [], "inconclusive": {}, "samples": [], "features": {}}


def _cnt(out, k, n=1):
    out["counts"][k] = out["counts"].get(k, 0) + n


def _inc(out, k, n=1):
    out["inconclusive"][k] = out["inconclusive"].get(k, 0) + n


def _prepare(task, out, hooks=False, mode="module"):
    """Load + compile the theory of a task. Returns (th, sig, meta) or None."""
    try:
        th = load_theory(task["spec"])
    except Exception as e:  # parser outside fragment etc.
        _inc(out, "theory-not-loadable")
        return None
    if not th.get("rules") and task["spec"][0] == "gen":
        _inc(out, "generated-theory-without-rules")
        return None
    sig = Sig(th)
    meta = driver.compile_theory(th, hooks=hooks, mode=mode)
    if not meta["ok"]:
        if meta["stage"] == "eqlog" and meta.get("eqlog_rc") == 1:
            _cnt(out, "programs_rejected_by_compiler")
        else:
            _inc(out, "build-failed:" + meta["stage"])
            out.setdefault("notes", []).append(meta["stderr"][-600:])
        return None
    _cnt(out, "programs")
    for k, v in theory_feature_hist(th).items():
        out["features"][k] = out["features"].get(k, 0) + v
    return th, sig, meta


def _run(meta, hists, out, timeout=180):
    status, hs, raw, err = driver.run_script(meta, hists, timeout=timeout)
    script = driver.script_text(hists)
    attach_tokens(hs, script)
    if status != "ok":
        _inc(out, "driver-" + status.split(":")[0])
    return status, hs, script


def _close_stats(out, ev, prev_pub, pub):
    _cnt(out, "closes")
    if ev.get("iters", 0) >= 3:
        _cnt(out, "closes_with_2plus_iterations")
    if ev.get("iters", 0) >= 5:
        _cnt(out, "closes_with_4plus_iterations")
    out["counts"]["max_iterations"] = max(out["counts"].get("max_iterations", 0), ev.get("iters", 0))


def _n_roots(pub):
    return sum(len(v) for v in pub["types"].values())


# ---------------------------------------------------------------------------------------------
# C01: closedness


def c01_task(task):
    out = _empty_out()
    pr = _prepare(task, out)
    if pr is None:
        return out
    th, sig, meta = pr
    rng = random.Random(sha(str(task["spec"]), str(task["seed"])))
    hists = []
    for i in range(task["histories"]):
        create, facts = gen.gen_facts(rng, sig, n_elems=task.get("n_elems", (2, 4)), max_facts=task.get("max_facts", 14))
        ops = gen.with_closes(rng, create, facts, closes=(0, 3))
        ops2 = []
        for op in ops:
            ops2.append(op)
            if op[0] == "close":
                ops2.append(["dump"])
        hists.append(("h%d" % i, 1, ops2))
    status, hs, script = _run(meta, hists, out)
    for h in hs:
        evs = h["events"]
        last_close = None
        prev_roots = None
        for ev in evs:
            if ev.get("e") != "op":
                continue
            if "panic" in ev:
                out["violations"].append(_vio("panic:" + ev["panic"][:80], "API call panicked in history %s: %s\nop: %s" % (h["tag"], ev["panic"], ev.get("toks")), th, script))
                break
            if ev["op"] == "close":
                last_close = ev
                if ev.get("capped"):
                    _inc(out, "close-capped")
                    break
            elif ev["op"] == "dump" and last_close is not None:
                pub = ev["public"]
                m = model_from_dump(sig, pub)
                out["evaluations"] += 1
                try:
                    bad = ref.satisfied(m, th)
                except ref.RefError as e:
                    _inc(out, "reference-outside-fragment")
                    break
                _close_stats(out, last_close, None, pub)
                nr = _n_roots(pub)
                nalloc = sum(len(v) for v in pub["roots"].values())
                if nr < nalloc:
                    _cnt(out, "closed_models_with_merged_elements")
                key = sha(th.get("text") or emit(th), json.dumps(pub, sort_keys=True))[:16]
                if last_close.get("iters", 0) >= 3 or nr < nalloc:
                    out["distinct"].append(key)
                if bad:
                    what = "closed model violates the theory after close() (history %s, script line %d):\n  %s\nmodel: %s" % (
                        h["tag"], last_close["i"], "\n  ".join(bad), json.dumps(pub)[:1500])
                    out["violations"].append(_vio("c01:" + bad[0].split(":")[0], what, th, script, {"history.txt": h["tag"]}))
                    break
                last_close = None
    if hists and len(out["samples"]) < 1:
        out["samples"].append({"theory": (th.get("text") or emit(th))[:1200], "history": [" ".join(map(str, o)) for o in hists[0][2]][:40]})
    return out


# ---------------------------------------------------------------------------------------------
# C02: free model


def c02_task(task):
    out = _empty_out()
    pr = _prepare(task, out)
    if pr is None:
        return out
    th, sig, meta = pr
    rng = random.Random(sha(str(task["spec"]), str(task["seed"]), "c02"))
    hists = []
    for i in range(task["histories"]):
        create, facts = gen.gen_facts(rng, sig, n_elems=task.get("n_elems", (2, 3)), max_facts=task.get("max_facts", 10))
        ops = gen.with_closes(rng, create, facts, closes=(0, 2))
        ops.append(["dump"])
        hists.append(("h%d" % i, 1, ops))
    status, hs, script = _run(meta, hists, out)
    for h, (tag, _, ops) in zip(hs, hists):
        evs = [e for e in h["events"] if e.get("e") == "op"]
        if any("panic" in e for e in evs):
            p = [e for e in evs if "panic" in e][0]
            out["violations"].append(_vio("panic:" + p["panic"][:80], "API call panicked in history %s: %s" % (tag, p["panic"]), th, script))
            continue
        if any(e.get("capped") for e in evs if e["op"] == "close"):
            _inc(out, "close-capped")
            continue
        dumps = [e for e in evs if e["op"] == "dump"]
        if not dumps:
            _inc(out, "no-final-dump")
            continue
        pub = dumps[-1]["public"]
        # reference
        try:
            m0, rlabs = reference_input(sig, [o for o in ops])
            ref.chase(th, m0, max_rounds=task.get("chase_rounds", 40), max_elems=task.get("chase_elems", 40))
        except ref.Bound:
            _inc(out, "reference-chase-bound")
            continue
        except ref.RefError:
            _inc(out, "reference-outside-fragment")
            continue
        labs = labels_of(sig, h["events"])
        m = model_from_dump(sig, pub)
        got = ref.canon(m, labs)
        want = ref.canon(m0, rlabs)
        out["evaluations"] += 1
        derived = m0.size() > len(set(m0.find(e) for e in rlabs.values()))
        merged = any(len(g) > 1 for gs in want["label_classes"].values() for g in gs)
        if derived:
            _cnt(out, "free_models_with_derived_elements")
        if merged:
            _cnt(out, "free_models_with_forced_merges_of_caller_elements")
        ntup = sum(len(v) for v in want["rels"].values())
        nin = sum(len(v) for v in m0.rels.values())
        if derived or merged or ntup > len([o for o in ops if o[0] in ("ins", "def", "newenum")]):
            out["distinct"].append(sha(th.get("text") or emit(th), json.dumps(want, sort_keys=True))[:16])
        if got != want:
            diff = ref.canon_diff(got, want)
            what = "closed model is not the free model (history %s):\n  %s\nobserved (named): %s\nexpected (reference chase): %s" % (
                tag, "\n  ".join(diff), json.dumps(got)[:1200], json.dumps(want)[:1200])
            out["violations"].append(_vio("c02:" + (diff[0].split(":")[0] if diff else "diff"), what, th, script, {"history.txt": tag}))
    if hists and not out["samples"]:
        out["samples"].append({"theory": (th.get("text") or emit(th))[:1200], "history": [" ".join(map(str, o)) for o in hists[0][2]][:40]})
    return out


# ---------------------------------------------------------------------------------------------
# C03: incremental = from scratch; close is idempotent


def c03_variants(rng, create, facts, k):
    vs = []
    bound = [gen.op_binds(o) for o in create]
    for j in range(k):
        c2 = list(create)
        if j % 2 == 1:
            # element creation order (enum creations depend on plain elements)
            c2 = gen.dep_shuffle(rng, create, [])
        f2 = gen.dep_shuffle(rng, facts, bound) if j > 0 else list(facts)
        kind = j % 5
        if kind == 0:
            ops = c2 + f2 + [["close"]]
        elif kind == 1:
            ops = gen.with_closes(rng, c2, f2, closes=(1, 3))
        elif kind == 2:
            ops = list(c2)
            for f in f2:
                ops.append(f)
                ops.append(["close"])
            ops.append(["close"])
        elif kind == 3:
            # redundant re-assertions
            ops = list(c2)
            for f in f2:
                ops.append(f)
                if f[0] in ("ins", "eq") and rng.random() < 0.5:
                    ops.append(f)
            if rng.random() < 0.5:
                ops.append(["close"])
                ops.extend(f for f in f2 if f[0] in ("ins", "eq"))
            ops.append(["close"])
        else:
            # late arrival: one assertion after everything else was closed
            ops = list(c2)
            if f2:
                late_i = rng.randrange(len(f2))
                late = f2[late_i]
                if late[0] in ("ins", "eq"):
                    ops.extend(f2[:late_i] + f2[late_i + 1:])
                    ops.append(["close"])
                    ops.append(late)
                else:
                    ops.extend(f2)
            ops.append(["close"])
        vs.append(ops)
    return vs


def c03_task(task):
    out = _empty_out()
    pr = _prepare(task, out)
    if pr is None:
        return out
    th, sig, meta = pr
    rng = random.Random(sha(str(task["spec"]), str(task["seed"]), "c03"))
    hists = []
    groups = []
    for i in range(task["factsets"]):
        create, facts = gen.gen_facts(rng, sig, n_elems=task.get("n_elems", (2, 4)), max_facts=task.get("max_facts", 12))
        vs = c03_variants(rng, create, facts, task["variants"])
        tags = []
        for j, ops in enumerate(vs):
            tag = "f%dv%d" % (i, j)
            hists.append((tag, 1, ops + [["dump"], ["close"], ["dump"]]))
            tags.append(tag)
        groups.append(tags)
    status, hs, script = _run(meta, hists, out)
    by_tag = {h["tag"]: h for h in hs}
    for tags in groups:
        canons = []
        for tag in tags:
            h = by_tag.get(tag)
            if h is None:
                continue
            evs = [e for e in h["events"] if e.get("e") == "op"]
            if any("panic" in e for e in evs):
                p = [e for e in evs if "panic" in e][0]
                out["violations"].append(_vio("panic:" + p["panic"][:80], "API call panicked in history %s: %s" % (tag, p["panic"]), th, script))
                continue
            if any(e.get("capped") for e in evs if e["op"] == "close"):
                _inc(out, "close-capped")
                continue
            dumps = [e for e in evs if e["op"] == "dump"]
            if len(dumps) < 2:
                _inc(out, "no-final-dump")
                continue
            d1, d2 = dumps[-2]["public"], dumps[-1]["public"]
            out["evaluations"] += 1
            if d1 != d2:
                what = "close() on a closed model changed it (history %s):\nbefore: %s\nafter:  %s" % (tag, json.dumps(d1)[:1200], json.dumps(d2)[:1200])
                out["violations"].append(_vio("c03:idempotence", what, th, script, {"history.txt": tag}))
                continue
            _cnt(out, "idempotence_checks")
            labs = labels_of(sig, h["events"])
            m = model_from_dump(sig, d1)
            canons.append((tag, ref.canon(m, labs), sum(1 for e in evs if e["op"] == "close") - 1))
        if len(canons) >= 2:
            base = canons[0]
            for tag, cn, ncl in canons[1:]:
                out["evaluations"] += 1
                if ncl > 1:
                    _cnt(out, "variant_pairs_with_intermediate_closes")
                    out["distinct"].append(sha(th.get("text") or emit(th), tag, json.dumps(cn, sort_keys=True))[:16])
                if cn != base[1]:
                    diff = ref.canon_diff(cn, base[1])
                    what = "two histories asserting the same facts closed to different models (%s vs %s):\n  %s\n%s: %s\n%s: %s" % (
                        tag, base[0], "\n  ".join(diff), tag, json.dumps(cn)[:1000], base[0], json.dumps(base[1])[:1000])
                    out["violations"].append(_vio("c03:" + (diff[0].split(":")[0] if diff else "diff"), what, th, script, {"history.txt": tag + " vs " + base[0]}))
                    break
    if hists and not out["samples"]:
        out["samples"].append({"theory": (th.get("text") or emit(th))[:1000], "variant_a": [" ".join(map(str, o)) for o in hists[0][2]][:30],
                               "variant_b": [" ".join(map(str, o)) for o in hists[min(1, len(hists) - 1)][2]][:30]})
    return out


# ---------------------------------------------------------------------------------------------
# aggregation


def aggregate(res, outs):
    feats = {}
    for o in outs:
        if "harness_error" in o:
            res.inconcl("harness-error")
            res.cov.setdefault("harness_errors", [])
            if len(res.cov["harness_errors"]) < 5:
                res.cov["harness_errors"].append(o["harness_error"][-800:])
            continue
        res.evaluations += o["evaluations"]
        res.distinct.update(o["distinct"])
        for k, v in o["counts"].items():
            if k.startswith("max_"):
                res.maxi(k, v)
            else:
                res.count(k, v)
        for k, v in o["inconclusive"].items():
            res.inconcl(k, v)
        for k, v in o["features"].items():
            feats[k] = feats.get(k, 0) + v
        for s in o["samples"]:
            res.sample(s, cap=3)
        for v in o["violations"]:
            res.violation(v["key"], v["what"], v["files"])
        if o.get("notes") and len(res.cov.setdefault("notes", [])) < 5:
            res.cov["notes"].extend(o["notes"][:2])
    res.cov["rule_shape_features"] = feats


PROFILES_ALL = ["mixed", "nonsurj", "diag", "eqprem", "surj", "enum", "mixed", "wide"]


def c01(tier, replay=None):
    res = Result("C01", tier)
    res.rule = ("one evaluation = one dump taken right after a close() returned, re-checked by naive evaluation of every source rule stage and of "
                "single-valuedness; non-trivial = the close ran >= 2 rule iterations or merged elements; distinct = hash(theory text, dump)")
    res.assumptions = ["reference semantics of /verif/vf/ref.py (sequential if/then reading, branch/match scoping as in branches.eql/matches.eql)",
                       "closes that hit the iteration cap (%d) are inconclusive, never violations" % ITER_CAP]
    q = tier == "quick"
    specs = specs_for(tier, 130, 1500, PROFILES_ALL)
    tasks = [{"spec": s, "seed": seed(), "histories": 30 if q else 80, "n_elems": (2, 4) if q else (2, 5), "max_facts": 14 if q else 20} for s in specs]
    aggregate(res, pmap(c01_task, tasks))
    return res.finish()


def c02(tier, replay=None):
    res = Result("C02", tier)
    res.rule = ("one evaluation = one closed dump compared, after naming every element by its least term over the caller's labels, with the "
                "reference chase of the same assertions; non-trivial = the free model has derived elements, forced merges of caller elements or "
                "derived tuples; distinct = hash(theory text, canonical free model)")
    res.assumptions = ["reference chase bounded (rounds/elements); inputs beyond the bound are counted as inconclusive",
                       "theories with `model` declarations are C17's"]
    q = tier == "quick"
    specs = specs_for(tier, 130, 1500, ["diag", "eqprem", "nonsurj", "mixed", "surj", "enum"], base=7)
    tasks = [{"spec": s, "seed": seed(), "histories": 25 if q else 70, "n_elems": (2, 3), "max_facts": 10 if q else 14} for s in specs]
    aggregate(res, pmap(c02_task, tasks))
    return res.finish()


def c03(tier, replay=None):
    res = Result("C03", tier)
    res.rule = ("one evaluation = one pair (variant history, base history) of the same fact set compared under canonical naming, or one "
                "close-on-closed-model idempotence comparison (public dump incl. root table byte-equal); non-trivial = the variant contains "
                "intermediate closes (so some premise atoms were old when later ones arrived); distinct = hash(theory, variant, canonical model)")
    res.assumptions = ["no reference model involved: pure metamorphic comparison"]
    q = tier == "quick"
    specs = specs_for(tier, 110, 1200, PROFILES_ALL, base=13)
    tasks = [{"spec": s, "seed": seed(), "factsets": 6 if q else 16, "variants": 6 if q else 10, "n_elems": (2, 4), "max_facts": 12 if q else 16} for s in specs]
    aggregate(res, pmap(c03_task, tasks))
    return res.finish()


TABLE = {"C01": c01, "C02": c02, "C03": c03}
