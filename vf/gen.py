"""Typed random generator of well-formed eqlog theories (fragment: types, enums, predicates,
functions, rules with if/then, nested terms, premise equalities, repeated variables, wildcards,
interleaved if/then, `!`, `:=`, branch, match) and of API histories (scripts) for them."""
import random

from .theory import Sig, app, stmts_vars, var, wild

LETTERS = "abcdefgh"

PROFILES = ("surj", "nonsurj", "enum", "wide", "diag", "eqprem", "mixed")


def _name(prefix, i):
    return prefix + LETTERS[i]


class RuleCtx:
    def __init__(self, rng, sig, profile, rule_index):
        self.rng = rng
        self.sig = sig
        self.profile = profile
        self.vars = {}  # name -> type (bound)
        self.known = []  # (term, type): application terms known to be defined
        self.nvar = 0
        self.prefix = "v" + LETTERS[rule_index % len(LETTERS)]

    def fresh(self, ty):
        names = "xyzuvwabcdefghklmnpqrst"
        i = self.nvar
        self.nvar += 1
        n = names[i % len(names)] + ("" if i < len(names) else "_" + names[i // len(names)])
        self.vars[n] = ty
        return n

    def bound_of(self, ty):
        return [n for n, t in self.vars.items() if t == ty]

    def known_of(self, ty):
        return [t for t, tt in self.known if tt == ty]

    def fork(self):
        c = RuleCtx(self.rng, self.sig, self.profile, 0)
        c.vars = dict(self.vars)
        c.known = list(self.known)
        c.nvar = self.nvar
        c.prefix = self.prefix
        return c

    def join_counter(self, other):
        self.nvar = max(self.nvar, other.nvar)


def has_wild(t):
    if t["k"] == "wild":
        return True
    return t["k"] == "app" and any(has_wild(a) for a in t["args"])


def gen_if_term(c, ty, depth):
    """A term of type ty for an if-atom; may bind fresh variables."""
    rng = c.rng
    p_repeat = 0.65 if c.profile == "diag" else 0.35
    bound = c.bound_of(ty)
    r = rng.random()
    funcs = [f for f, (a, res) in c.sig.funcs.items() if res == ty]
    if depth < 2 and funcs and r < (0.22 if depth == 0 else 0.12):
        f = rng.choice(funcs)
        args = [gen_if_term(c, t, depth + 1) for t in c.sig.funcs[f][0]]
        t = app(f, *args)
        if not any(has_wild(a) for a in args):
            c.known.append((t, ty))
        return t
    if bound and rng.random() < p_repeat:
        return var(rng.choice(bound))
    if rng.random() < 0.08:
        return wild()
    return var(c.fresh(ty))


def gen_if_atom(c):
    rng, sig = c.rng, c.sig
    kinds = ["pred"] * 6 + ["type"] * 1 + ["def"] * 1 + ["eq"] * (4 if c.profile == "eqprem" else 1)
    if not sig.preds:
        kinds = [k for k in kinds if k != "pred"] or ["type"]
    if not sig.funcs:
        kinds = [k for k in kinds if k not in ("def",)]
    k = rng.choice(kinds)
    if k == "pred":
        p = rng.choice(sorted(sig.preds))
        args = [gen_if_term(c, t, 0) for t in sig.preds[p]]
        return {"k": "pred", "p": p, "args": args}
    if k == "type":
        ty = rng.choice(sig.all_types)
        return {"k": "type", "v": c.fresh(ty), "ty": ty}
    if k == "def":
        f = rng.choice(sorted(sig.funcs))
        args = [gen_if_term(c, t, 1) for t in sig.funcs[f][0]]
        t = app(f, *args)
        if not any(has_wild(a) for a in args):
            c.known.append((t, sig.funcs[f][1]))
        return {"k": "def", "t": t}
    # equality: variable = application, application = application, or bound = bound
    ty = rng.choice(sig.all_types)
    funcs = [f for f, (a, res) in sig.funcs.items() if res == ty]
    bound = c.bound_of(ty)
    form = rng.random()
    if funcs and form < 0.55:
        f = rng.choice(funcs)
        args = [gen_if_term(c, t, 1) for t in sig.funcs[f][0]]
        t = app(f, *args)
        if not any(has_wild(a) for a in args):
            c.known.append((t, ty))
        if bound and rng.random() < 0.5:
            lhs = var(rng.choice(bound))
        else:
            lhs = var(c.fresh(ty))
        return {"k": "eq", "l": lhs, "r": t} if rng.random() < 0.7 else {"k": "eq", "l": t, "r": lhs}
    if funcs and form < 0.75:
        f, g = rng.choice(funcs), rng.choice(funcs)
        ta = app(f, *[gen_if_term(c, t, 1) for t in sig.funcs[f][0]])
        tb = app(g, *[gen_if_term(c, t, 1) for t in sig.funcs[g][0]])
        for t in (ta, tb):
            if not has_wild(t):
                c.known.append((t, ty))
        return {"k": "eq", "l": ta, "r": tb}
    if len(bound) >= 2:
        a, b = rng.sample(bound, 2)
        return {"k": "eq", "l": var(a), "r": var(b)}
    # fall back to a predicate / type atom
    if sig.preds:
        p = rng.choice(sorted(sig.preds))
        return {"k": "pred", "p": p, "args": [gen_if_term(c, t, 0) for t in sig.preds[p]]}
    return {"k": "type", "v": c.fresh(ty), "ty": ty}


def then_term(c, ty):
    """A term of type ty usable in a then-atom: a bound variable or a known application."""
    opts = [var(n) for n in c.bound_of(ty)] + c.known_of(ty)
    return c.rng.choice(opts) if opts else None


def gen_then_atom(c, allow_nonsurj):
    rng, sig = c.rng, c.sig
    kinds = ["pred"] * 5 + ["eq"] * 3 + ["graph"] * 2 + (["def"] * 4 if allow_nonsurj else [])
    for _ in range(12):
        k = rng.choice(kinds)
        if k == "pred" and sig.preds:
            p = rng.choice(sorted(sig.preds))
            args = [then_term(c, t) for t in sig.preds[p]]
            if all(a is not None for a in args):
                return {"k": "pred", "p": p, "args": args}
        elif k == "eq":
            ty = rng.choice(sig.all_types)
            a, b = then_term(c, ty), then_term(c, ty)
            if a is not None and b is not None and a != b:
                return {"k": "eq", "l": a, "r": b}
        elif k == "graph" and sig.funcs:
            f = rng.choice(sorted(sig.funcs))
            at, res = sig.funcs[f]
            args = [then_term(c, t) for t in at]
            val = then_term(c, res)
            if all(a is not None for a in args) and val is not None:
                t = app(f, *args)
                if t != val:
                    c.known.append((t, res))
                    return {"k": "eq", "l": t, "r": val} if rng.random() < 0.5 else {"k": "eq", "l": val, "r": t}
        elif k == "def" and sig.funcs:
            cands = [f for f in sorted(sig.funcs) if sig.definable(f)]
            if not cands:
                continue
            f = rng.choice(cands)
            at, res = sig.funcs[f]
            args = [then_term(c, t) for t in at]
            if all(a is not None for a in args):
                t = app(f, *args)
                a = {"k": "def", "t": t}
                if rng.random() < 0.5:
                    a["v"] = c.fresh(res)
                c.known.append((t, res))
                return a
    return None


def gen_block(c, allow_nonsurj, n_if, n_then, depth=0):
    rng = c.rng
    stmts = []
    for _ in range(n_if):
        stmts.append({"k": "if", "atom": gen_if_atom(c)})
    if depth == 0 and rng.random() < (0.18 if c.profile in ("mixed", "enum") else 0.08):
        blocks = []
        for _ in range(rng.choice((1, 2, 2, 3))):
            cc = c.fork()
            b = gen_block(cc, allow_nonsurj, rng.choice((0, 1, 1, 2)), rng.choice((1, 1, 2)), depth + 1)
            c.join_counter(cc)
            blocks.append(b)
        stmts.append({"k": "branch", "blocks": blocks})
    enum_vars = [n for n, t in c.vars.items() if t in c.sig.enums]
    if depth == 0 and enum_vars and rng.random() < 0.5:
        x = rng.choice(enum_vars)
        e = c.sig.enums[c.vars[x]]
        cases = []
        for ct in e["ctors"]:
            cc = c.fork()
            vs = [cc.fresh(t) for t in ct["args"]]
            cc.known.append((app(ct["name"], *[var(v) for v in vs]), e["name"]))
            body = gen_block(cc, allow_nonsurj, rng.choice((0, 0, 1)), rng.choice((0, 1, 1)), depth + 1)
            c.join_counter(cc)
            cases.append({"ctor": ct["name"], "vars": vs, "body": body})
        stmts.append({"k": "match", "term": var(x), "cases": cases})
    for _ in range(n_then):
        a = gen_then_atom(c, allow_nonsurj)
        if a is not None:
            stmts.append({"k": "then", "atom": a})
    if depth == 0 and rng.random() < 0.3:
        # interleaved: more premises after conclusions
        for _ in range(rng.choice((1, 1, 2))):
            stmts.append({"k": "if", "atom": gen_if_atom(c)})
        for _ in range(rng.choice((1, 1, 2))):
            a = gen_then_atom(c, allow_nonsurj)
            if a is not None:
                stmts.append({"k": "then", "atom": a})
    return stmts


def _count_vars(stmts):
    acc = []
    stmts_vars(stmts, acc)
    cnt = {}
    for v in acc:
        cnt[v] = cnt.get(v, 0) + 1
    return cnt


def _wildcard_singletons(stmts, cnt):
    """Replace variables that occur once by `_` (if-atoms only); drop `x: T` atoms whose variable
    is otherwise unused; returns the new statement list."""
    def fix_term(t):
        if t["k"] == "var" and cnt.get(t["n"], 0) == 1:
            return wild()
        if t["k"] == "app":
            return {"k": "app", "f": t["f"], "args": [fix_term(a) for a in t["args"]]}
        return t

    out = []
    for s in stmts:
        if s["k"] == "if":
            a = s["atom"]
            if a["k"] == "type":
                if cnt.get(a["v"], 0) <= 1:
                    continue
                out.append(s)
            elif a["k"] == "pred":
                out.append({"k": "if", "atom": {"k": "pred", "p": a["p"], "args": [fix_term(t) for t in a["args"]]}})
            elif a["k"] == "eq":
                l, r = fix_term(a["l"]), fix_term(a["r"])
                if l["k"] == "wild" and r["k"] == "wild":
                    continue
                if l["k"] == "wild" or r["k"] == "wild":
                    # `_ = t` only asserts that t is defined
                    t = r if l["k"] == "wild" else l
                    if t["k"] != "app":
                        continue
                    out.append({"k": "if", "atom": {"k": "def", "t": t}})
                else:
                    out.append({"k": "if", "atom": {"k": "eq", "l": l, "r": r}})
            elif a["k"] == "def":
                out.append({"k": "if", "atom": {"k": "def", "t": fix_term(a["t"])}})
        elif s["k"] == "then":
            a = s["atom"]
            if a["k"] == "def" and a.get("v") and cnt.get(a["v"], 0) <= 1:
                a = {"k": "def", "t": a["t"]}
            out.append({"k": "then", "atom": a})
        elif s["k"] == "branch":
            out.append({"k": "branch", "blocks": [_wildcard_singletons(b, cnt) for b in s["blocks"]]})
        elif s["k"] == "match":
            cases = []
            for c in s["cases"]:
                cases.append({"ctor": c["ctor"], "vars": [("_" if cnt.get(v, 0) <= 1 else v) for v in c["vars"]],
                              "body": _wildcard_singletons(c["body"], cnt)})
            out.append({"k": "match", "term": s["term"], "cases": cases})
    return out


def _has_then(stmts):
    for s in stmts:
        if s["k"] == "then":
            return True
        if s["k"] == "branch" and any(_has_then(b) for b in s["blocks"]):
            return True
        if s["k"] == "match" and any(_has_then(c["body"]) for c in s["cases"]):
            return True
    return False


def gen_rule(rng, sig, profile, idx):
    allow_nonsurj = profile in ("nonsurj", "mixed", "enum", "wide") and rng.random() < 0.6
    for _ in range(20):
        c = RuleCtx(rng, sig, profile, idx)
        n_if = rng.choice((1, 1, 2, 2, 3)) if rng.random() > 0.04 else 0
        body = gen_block(c, allow_nonsurj, n_if, rng.choice((1, 1, 2)))
        # wildcard pass to a fixed point (removing atoms changes counts)
        for _i in range(4):
            cnt = _count_vars(body)
            nb = _wildcard_singletons(body, cnt)
            if nb == body:
                break
            body = nb
        cnt = _count_vars(body)
        if any(v == 1 for v in cnt.values()):
            continue
        if not _has_then(body):
            continue
        return {"name": _name("r", idx), "body": body}
    return None


def gen_theory(seed, profile="mixed", name="th"):
    rng = random.Random(seed * 7919 + hash(profile) % 1000 if False else (seed, profile).__repr__())
    ntypes = rng.choice((1, 1, 2, 2, 3))
    types = [_name("T", i) for i in range(ntypes)]
    enums = []
    if profile == "enum" or (profile == "mixed" and rng.random() < 0.3):
        nct = rng.choice((1, 2, 2, 3))
        ctors = []
        for i in range(nct):
            na = rng.choice((0, 0, 1, 1, 2))
            args = [rng.choice(types + ["Ea", "Ea"][: (1 if i > 0 else 0)]) for _ in range(na)]
            ctors.append({"name": "C" + LETTERS[i] + "x", "args": args})
        enums.append({"name": "Ea", "ctors": ctors})
    all_types = types + [e["name"] for e in enums]
    max_ar = 9 if profile == "wide" else 3
    preds = []
    for i in range(rng.choice((1, 2, 2, 3, 4))):
        if profile == "wide" and i == 0:
            ar = rng.choice((4, 5, 6, 7, 8, 9))
        else:
            ar = rng.choice((0, 1, 1, 2, 2, 2, 3) if max_ar == 3 else (0, 1, 2, 2, 3, 4, 5))
        preds.append({"name": _name("p", i), "args": [rng.choice(all_types) for _ in range(ar)]})
    funcs = []
    for i in range(rng.choice((0, 1, 1, 2, 2, 3))):
        ar = rng.choice((0, 1, 1, 1, 2, 2))
        res = rng.choice(types) if rng.random() < 0.9 or not enums else rng.choice(all_types)
        funcs.append({"name": _name("f", i), "args": [rng.choice(all_types) for _ in range(ar)], "res": res})
    th = {"name": name, "types": types, "enums": enums, "preds": preds, "funcs": funcs, "rules": []}
    sig = Sig(th)
    nrules = rng.choice((1, 2, 2, 3, 3, 4, 5))
    for i in range(nrules):
        r = gen_rule(rng, sig, profile, i)
        if r is not None:
            th["rules"].append(r)
    th["profile"] = profile
    th["seed"] = seed
    return th


def is_surjective(th):
    def walk(stmts):
        for s in stmts:
            if s["k"] == "then" and s["atom"]["k"] == "def":
                return False
            if s["k"] == "branch" and not all(walk(b) for b in s["blocks"]):
                return False
            if s["k"] == "match" and not all(walk(c["body"]) for c in s["cases"]):
                return False
        return True
    return all(walk(r["body"]) for r in th.get("rules", []))


# ---------------------------------------------------------------------------------------------
# histories (scripts)
#
# A script is a list of ops (lists of tokens). Elements are referred to by labels; the ops that
# obtain an element from the API (new / newenum / def) carry the label to bind as last token.


def op_uses(op):
    """Labels an op needs to be bound."""
    k = op[0]
    if k == "ins":
        return op[2:]
    if k == "def":
        return op[2:-1]
    if k == "newenum":
        return op[3:-1]
    if k == "eq":
        return op[2:4]
    return []


def op_binds(op):
    if op[0] == "new":
        return op[2]  # `new T label [parent]`
    if op[0] in ("def", "newenum"):
        return op[-1]
    return None


def dep_shuffle(rng, ops, bound):
    """Random permutation of ops that keeps every binding before its uses."""
    bound = set(bound)
    pending = list(ops)
    out = []
    while pending:
        ready = [i for i, o in enumerate(pending) if all(l in bound for l in op_uses(o))]
        if not ready:
            break
        i = rng.choice(ready)
        o = pending.pop(i)
        out.append(o)
        b = op_binds(o)
        if b:
            bound.add(b)
    return out


def gen_facts(rng, sig, n_elems=(2, 4), density=0.5, max_facts=14):
    """Returns (creation ops, assertion ops in a dependency-respecting random order)."""
    create = []
    labels = {ty: [] for ty in sig.all_types}
    for ty in sig.types:
        for i in range(rng.randint(*n_elems)):
            lab = "%s%d" % (ty, i)
            create.append(["new", ty, lab])
            labels[ty].append(lab)
    for e in sig.enums.values():
        for i in range(rng.randint(1, 3)):
            cts = [c for c in e["ctors"] if all(labels[t] for t in c["args"])]
            if not cts:
                break
            ct = rng.choice(cts)
            lab = "%s%d" % (e["name"], i)
            create.append(["newenum", e["name"], ct["name"]] + [rng.choice(labels[t]) for t in ct["args"]] + [lab])
            labels[e["name"]].append(lab)
    facts = []
    rels = sorted(sig.rels)
    target = rng.randint(1, max_facts) if rels else 0
    nd = 0
    for _ in range(target * 3):
        if len(facts) >= target:
            break
        r = rng.choice(rels)
        cols = sig.rels[r]
        if r in sig.ctor_of:
            continue  # constructor graphs are only extended through newenum/define
        is_def = sig.is_func(r) and rng.random() < 0.3 and sig.definable(r)
        need = cols[:-1] if is_def else cols
        if any(not labels[t] for t in need):
            continue
        if rng.random() > density:
            args = [labels[t][min(rng.randrange(len(labels[t])), rng.randrange(2))] for t in need]
        else:
            args = [rng.choice(labels[t]) for t in need]
        if is_def:
            lab = "%sd%d" % (cols[-1], nd)
            nd += 1
            facts.append(["def", r] + args + [lab])
            labels[cols[-1]].append(lab)
        else:
            facts.append(["ins", r] + args)
    for ty in sig.all_types:
        if len(labels[ty]) >= 2 and rng.random() < 0.35:
            for _ in range(rng.choice((1, 1, 2))):
                facts.append(["eq", ty, rng.choice(labels[ty]), rng.choice(labels[ty])])
    bound = [op_binds(o) for o in create]
    facts = dep_shuffle(rng, facts, bound)
    return create, facts


def with_closes(rng, create, facts, closes=(0, 3), final=True):
    ops = list(create)
    ncl = rng.randint(*closes)
    cuts = sorted(rng.randrange(len(facts) + 1) for _ in range(ncl))
    j = 0
    for i, f in enumerate(facts):
        while j < len(cuts) and cuts[j] == i:
            ops.append(["close"])
            j += 1
        ops.append(f)
    if final:
        ops.append(["close"])
    return ops


def gen_history(rng, sig, closes=(0, 3), **kw):
    create, facts = gen_facts(rng, sig, **kw)
    return with_closes(rng, create, facts, closes)
