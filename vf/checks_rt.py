"""C08, C14, C18: online differential monitors over eqlog-runtime (native + Miri shards)."""
import json
import os
from concurrent.futures import ThreadPoolExecutor

from .util import NCPU, RT_BIN, VERIF, WORK, Result, env_with, run, seed

MIRI_TARGET = os.path.join(WORK, "rt-miri")


def _native(args, timeout):
    rc, out, err = run([RT_BIN] + [str(a) for a in args], timeout=timeout)
    return ("native", args, rc, out, err)


def _miri(args, timeout, flags="-Zmiri-tree-borrows"):
    rc, out, err = run(
        ["cargo", "+nightly", "miri", "run", "--offline", "--quiet", "--"] + [str(a) for a in args],
        cwd=os.path.join(WORK, "rt-src"),
        env=env_with({"MIRIFLAGS": flags, "CARGO_TARGET_DIR": MIRI_TARGET}),
        timeout=timeout,
    )
    return ("miri", args, rc, out, err)


def _parse(out):
    for line in out.splitlines():
        line = line.strip()
        if line.startswith("{") and '"mode"' in line:
            try:
                return json.loads(line)
            except ValueError:
                pass
    return None


def _classify(what):
    """Signature of a divergence for the known-findings file: strip concrete values."""
    import re
    w = re.sub(r"\[[^\]]*\]", "[..]", what)
    w = re.sub(r"\{[^}]*\}", "{..}", w)
    w = re.sub(r"\d+", "N", w)
    return w[:160]


def run_jobs(res, jobs, miri_jobs, nontrivial_key="distinct_states"):
    """jobs: list of (args, timeout). Aggregates statistics into res."""
    results = []
    with ThreadPoolExecutor(max_workers=NCPU) as ex:
        futs = [ex.submit(_native, a, t) for (a, t) in jobs]
        if miri_jobs:
            # first Miri job compiles the crate for the Miri target; run it alone, then fan out
            first = _miri(*miri_jobs[0])
            results.append(first)
            futs += [ex.submit(_miri, a, t) for (a, t) in miri_jobs[1:]]
        for f in futs:
            results.append(f.result())
    agg = {}
    per_mode_states = {}
    for kind, args, rc, out, err in results:
        j = _parse(out)
        label = kind + ":" + args[0]
        if rc is None:
            res.inconcl("watchdog:" + label)
            continue
        if j is None:
            if kind == "miri" and "Undefined Behavior" in err:
                i = err.find("error: Undefined Behavior")
                what = "Miri (tree borrows) reports undefined behaviour while running the monitor workload:\n" + err[i:i + 3000]
                res.violation("miri-ub:" + _classify(err[i:i + 200]), what,
                              {"cmd.txt": "cd /verif/.work/rt-src && MIRIFLAGS=-Zmiri-tree-borrows cargo +nightly miri run --offline -- " + " ".join(map(str, args)) + "\n", "stderr.txt": err})
            elif kind == "miri" and ("memory leaked" in err or "error: " in err and "unsupported operation" not in err and "could not compile" not in err):
                i = err.find("error:")
                what = "Miri reports an error while running the monitor workload:\n" + err[i:i + 3000]
                res.violation("miri-error:" + _classify(err[i:i + 200]), what,
                              {"cmd.txt": "cd /verif/.work/rt-src && MIRIFLAGS=-Zmiri-tree-borrows cargo +nightly miri run --offline -- " + " ".join(map(str, args)) + "\n", "stderr.txt": err})
            elif rc == 101 or "panicked at" in err:
                # a panic inside eqlog-runtime (or the monitor) under a legal operation sequence
                i = err.find("panicked at")
                where = err[i:i + 400].split("\n")[0]
                if "eqlog-runtime" in where:
                    res.violation("panic:" + _classify(where), "panic inside eqlog-runtime during a legal operation sequence:\n" + err[-3000:],
                                  {"cmd.txt": RT_BIN + " " + " ".join(map(str, args)) + "\n", "stderr.txt": err})
                else:
                    res.inconcl("monitor-panic:" + label)
                    res.cov.setdefault("harness_errors", []).append(err[-800:])
            else:
                res.inconcl("no-output:" + label)
                res.cov.setdefault("harness_errors", []).append((err or out)[-800:])
            continue
        if not j.get("ok"):
            what = "%s (mode %s, seed %s, episode %s)\noperations of the episode:\n  %s" % (
                j.get("violation"), j.get("mode"), j.get("seed"), j.get("episode"), "\n  ".join(j.get("ops", [])[-60:]))
            replay_args = list(map(str, args))
            if j.get("mode") in ("pt", "wb", "set", "topo"):
                replay_args += ["--episode", str(j.get("episode"))]
            res.violation("%s:%s" % (j.get("mode"), _classify(j.get("violation", ""))), what,
                          {"cmd.txt": RT_BIN + " " + " ".join(replay_args) + "\n", "witness.json": json.dumps(j, indent=1)})
            continue
        st = j["stats"]
        res.evaluations += st["comparisons"]
        res.count("operations", st["ops"])
        res.count("episodes", st["episodes"])
        res.count(kind + "_runs")
        if kind == "miri":
            res.count("miri_operations", st["ops"])
        per_mode_states[label] = max(per_mode_states.get(label, 0), st[nontrivial_key])
        for k, v in st["ops_by_kind"].items():
            agg[k] = agg.get(k, 0) + v
        for k, v in st["extra"].items():
            res.count(k, v)
        res.maxi("max_size", st["max_size"])
        res.maxi("max_height", st["max_height"])
        res.maxi("max_height_over_bound_milli", st["max_height_ratio_milli"])
        for s in st["samples"]:
            res.sample(s[:1500])
    res.cov["ops_by_kind"] = agg
    res.distinct = sum(per_mode_states.values())
    res.cov["distinct_states_per_mode"] = per_mode_states


def _pt_miri_jobs(base, rounds):
    """One Miri shard per arity (interpretation costs 0.2-3.5 s per monitored operation, growing
    with arity because every operation is followed by a full structural comparison)."""
    jobs = []
    for r in range(rounds):
        for a in range(10):
            if a <= 3:
                ep, ops = 3, 30
            elif a <= 6:
                ep, ops = 2, 12
            else:
                ep, ops = 2, 7
            jobs.append((["pt", "--seed", base + 10 * r + a, "--episodes", ep, "--ops", ops, "--universe", 3, "--family", 3,
                          "--arity-min", a, "--arity-max", a], 1800))
        for a in (2, 3):
            jobs.append((["pt", "--seed", base + 10 * r + 5 + a, "--episodes", 4, "--ops", 30, "--universe", 2, "--family", 3,
                          "--arity-min", a, "--arity-max", a], 1800))
    return jobs


def c08(tier):
    res = Result("C08", tier)
    s = seed()
    res.rule = ("one evaluation = one full structural comparison of a live container (iteration, is_empty, "
                "iter_restrictions, get on every first-column value, recursively) with its BTreeSet shadow, done for every "
                "member of a clone family after every operation; distinct_nontrivial = number of distinct family states "
                "(hash of all members' tuple sets + arity) seen, taken as the maximum over shards of one mode and summed over modes")
    res.assumptions = ["reference: std BTreeSet<Vec<u32>>; mapped() reference takes the least image of a column, as the code does",
                       "get_mut/iter_restrictions_mut are used only in ways that cannot empty a sub-tree (caller's duty per the TODO at prefix_tree.rs:996)"]
    jobs, miri = [], []
    if tier == "quick":
        for i in range(12):
            jobs.append((["pt", "--seed", s * 100 + i, "--episodes", 3000, "--ops", 60, "--universe", 5, "--family", 5, "--max-size", 80], 600))
        for i in range(2):
            jobs.append((["pt", "--seed", s * 100 + 50 + i, "--episodes", 300, "--ops", 300, "--universe", 3, "--family", 6, "--max-size", 400], 600))
        for a in (0, 1, 2, 3):
            jobs.append((["pt-exh", "--arity", a, "--depth", 3, "--universe", 2, "--family", 2], 900))
        miri = _pt_miri_jobs(s * 100, 1)
    else:
        for i in range(16):
            jobs.append((["pt", "--seed", s * 1000 + i, "--episodes", 120000, "--ops", 60, "--universe", 5, "--family", 6, "--max-size", 80], 3000))
        for i in range(8):
            jobs.append((["pt", "--seed", s * 1000 + 500 + i, "--episodes", 3000, "--ops", 400, "--universe", 4, "--family", 6, "--max-size", 600], 3000))
        for a in (0, 1, 2, 3, 4):
            jobs.append((["pt-exh", "--arity", a, "--depth", 3, "--universe", 2, "--family", 2], 3000))
        for a in (1, 2):
            jobs.append((["pt-exh", "--arity", a, "--depth", 4, "--universe", 2, "--family", 2], 3000))
        miri = _pt_miri_jobs(s * 1000, 8)
    run_jobs(res, jobs, miri)
    res.cov["exhaustive_subruns"] = "all operation sequences of the stated depth over a 2-value universe, family of 2 clones (pt-exh)"
    return res.finish()


def c14(tier):
    res = Result("C14", tier)
    s = seed()
    res.rule = ("one evaluation = one comparison of a live map with its BTreeMap shadow (iteration, len, is_empty) plus the "
                "H1 shape walk (size fields, key order, weight balance at every node, height <= 2.41*log2(n+1)+1), for every member "
                "of a clone family after every operation, plus every return value and every merge/filter callback invocation list; "
                "distinct_nontrivial = distinct (contents, origins, height) family states, max over shards per mode, summed over modes")
    res.assumptions = ["reference: std BTreeMap/BTreeSet", "WBTreeMap::mapped (work in progress, not among the stated operations) is not exercised"]
    jobs, miri = [], []
    if tier == "quick":
        for i in range(8):
            jobs.append((["wb", "--seed", s * 100 + i, "--episodes", 4000, "--ops", 80, "--universe", 64, "--family", 5, "--max-size", 96], 600))
        for i in range(4):
            jobs.append((["wb", "--seed", s * 100 + 20 + i, "--episodes", 30, "--ops", 600, "--universe", 4096, "--family", 4, "--max-size", 3000], 600))
        jobs.append((["set", "--seed", s, "--episodes", 4000, "--ops", 60, "--universe", 32, "--family", 4], 600))
        jobs.append((["wb-exh", "--depth", 4, "--universe", 3, "--family", 2], 900))
        for i in range(14):
            miri.append((["wb", "--seed", s * 100 + i, "--episodes", 6, "--ops", 40, "--universe", 16, "--family", 3], 900))
    else:
        for i in range(12):
            jobs.append((["wb", "--seed", s * 1000 + i, "--episodes", 150000, "--ops", 80, "--universe", 64, "--family", 6, "--max-size", 96], 3000))
        for i in range(8):
            jobs.append((["wb", "--seed", s * 1000 + 200 + i, "--episodes", 300, "--ops", 1500, "--universe", 4096, "--family", 4, "--max-size", 4000], 3000))
        jobs.append((["set", "--seed", s, "--episodes", 200000, "--ops", 60, "--universe", 32, "--family", 4], 3000))
        jobs.append((["wb-exh", "--depth", 5, "--universe", 3, "--family", 2], 3000))
        jobs.append((["wb-exh", "--depth", 4, "--universe", 4, "--family", 2], 3000))
        for i in range(96):
            miri.append((["wb", "--seed", s * 1000 + i, "--episodes", 8, "--ops", 50, "--universe", 16, "--family", 3], 1800))
    run_jobs(res, jobs, miri)
    res.cov["exhaustive_subruns"] = "all operation sequences of the stated depth over keys {0..universe-1}, family of 2 clones (wb-exh)"
    return res.finish()


def c18(tier):
    res = Result("C18", tier)
    s = seed()
    res.rule = ("one evaluation = one (graph, new/old split) submitted to morphism_toposort and judged: Ok/Err vs an independent DFS cycle test, "
                "result set = morphisms with both ends defined, each once, with right dom/cod, every morphism into B before every morphism out of B; "
                "verdict and set equal across splits; distinct_nontrivial = distinct graphs (hash of objects and morphism table)")
    res.assumptions = ["well-formed inputs only: every dom/cod value is a listed object, tables functional, new/old parts disjoint"]
    jobs, miri = [], []
    if tier == "quick":
        jobs.append((["topo-exh", "--max-obj", 3, "--max-mor", 4, "--splits", 6, "--seed", s], 900))
        for i in range(8):
            jobs.append((["topo", "--seed", s * 100 + i, "--episodes", 20000, "--max-obj", 9, "--max-mor", 14, "--splits", 8], 600))
        for i in range(4):
            miri.append((["topo", "--seed", s * 100 + i, "--episodes", 12, "--max-obj", 5, "--max-mor", 7, "--splits", 3], 900))
    else:
        jobs.append((["topo-exh", "--max-obj", 4, "--max-mor", 5, "--splits", 8, "--seed", s], 3000))
        for i in range(15):
            jobs.append((["topo", "--seed", s * 1000 + i, "--episodes", 400000, "--max-obj", 10, "--max-mor", 16, "--splits", 8], 3000))
        for i in range(32):
            miri.append((["topo", "--seed", s * 1000 + i, "--episodes", 20, "--max-obj", 5, "--max-mor", 8, "--splits", 3], 1800))
    run_jobs(res, jobs, miri)
    res.cov["exhaustive"] = False
    res.cov["exhaustive_subruns"] = "all multigraphs with <= max-obj objects and <= max-mor morphisms (each end undefined or an object), topo-exh"
    return res.finish()
