"""Run registered checks against a seeded defect without touching /repo.

python3 -m vf.seedtest <seeded/<id>> <PID> [<PID> ...] [--tier quick]

Copies /repo's working tree (without target) to a scratch directory under /var/tmp, applies
seeded/<id>/patch.diff there, runs the checks with VF_REPO pointing at the copy, prints one line
per check and removes the copy. The mirror/compiler are rebuilt from /repo by the next ordinary
check run (the build stamp records which tree it was built from)."""
import json
import os
import shutil
import subprocess
import sys
import time

VERIF = os.path.dirname(os.path.dirname(os.path.abspath(__file__)))


def main():
    args = [a for a in sys.argv[1:] if not a.startswith("--")]
    tier = "quick"
    if "--tier" in sys.argv:
        tier = sys.argv[sys.argv.index("--tier") + 1]
        args = [a for a in args if a != tier]
    sd = os.path.abspath(args[0])
    pids = args[1:]
    scratch = "/var/tmp/vf-seed-%d" % os.getpid()
    subprocess.run(["rsync", "-a", "--exclude", "/target", "/repo/", scratch + "/"], check=True)
    try:
        r = subprocess.run(["git", "apply", os.path.join(sd, "patch.diff")], cwd=scratch, capture_output=True, text=True)
        if r.returncode != 0:
            print("patch does not apply: " + r.stderr)
            return 2
        env = dict(os.environ)
        env["VF_REPO"] = scratch
        results = {}
        for pid in pids:
            t0 = time.time()
            p = subprocess.run([sys.executable, "-m", "vf", "check", pid, "--tier", tier], cwd=VERIF, env=env, capture_output=True, text=True)
            lines = [l for l in p.stdout.splitlines() if l.startswith(("VIOLATION", "OK ", "INCONCLUSIVE", "KNOWN-FINDING"))]
            first = ""
            if p.returncode == 1:
                i = p.stdout.find("VIOLATION")
                first = p.stdout[i:i + 1200]
            results[pid] = {"rc": p.returncode, "wall_s": round(time.time() - t0, 1), "lines": lines[:3], "first_violation": first}
            print("%s: rc=%d (%s) %.0fs" % (pid, p.returncode, {0: "MISSED", 1: "CAUGHT", 2: "INCONCLUSIVE"}.get(p.returncode, "?"), time.time() - t0))
            if first:
                print("   " + first.replace("\n", "\n   ")[:900])
        with open(os.path.join(sd, "check_results.json"), "w") as f:
            json.dump({"tier": tier, "results": results, "at": time.strftime("%Y-%m-%d %H:%M:%S")}, f, indent=1)
    finally:
        shutil.rmtree(scratch, ignore_errors=True)
    return 0


if __name__ == "__main__":
    sys.exit(main())
