"""C04: consistency of all redundant copies of a relation and of every query path, checked
offline on the probe's dumps (public iterators, private index fields, point-query sweep)."""
from .driver import HarnessError, parse_index_name
from .theory import snake


def decode_index_rows(info, rows, arity):
    """Rows of an index field -> full tuples (in the relation's declared column order)."""
    order = info["order"]
    eqs = info["eqs"]
    out = []
    if eqs is None:
        if len(order) != arity:
            raise HarnessError("index %s: order length %d != arity %d" % (info, len(order), arity))
        for s in rows:
            t = [None] * arity
            for j, col in enumerate(order):
                t[col] = s[j]
            out.append(tuple(t))
        return out
    rel_pos = [i for i in range(arity) if eqs[i] == i]
    if len(order) != len(rel_pos):
        raise HarnessError("diagonal index %s: order length mismatch" % (info,))
    for s in rows:
        rel_args = [None] * len(rel_pos)
        for j, k in enumerate(order):
            rel_args[k] = s[j]
        t = [rel_args[rel_pos.index(eqs[i])] for i in range(arity)]
        out.append(tuple(t))
    return out


def check(sig, pub, priv, sweep=None, quiescent=True, limit=6):
    """Returns (violations: list of str, stats: dict)."""
    bad = []
    stats = {}
    rel_snakes = {snake(r): r for r in sig.rels}
    type_snakes = {snake(t): t for t in sig.all_types}
    roots = pub["roots"]

    def is_root(ty, x):
        return x < len(roots[ty]) and roots[ty][x] == x

    # ---- type sets (I2)
    tsets = {t: {"new": None, "old": None} for t in sig.all_types}
    rel_idx = {r: {"new": [], "old": []} for r in sig.rels}
    for name, rows in priv["index"].items():
        info = parse_index_name(name, rel_snakes, type_snakes)
        if info["suffix"]:
            continue  # member relations are C17's
        if info["kind"] == "type":
            tsets[type_snakes[info["base"]]][info["age"]] = set(r[0] for r in rows)
            if len(set(map(tuple, rows))) != len(rows):
                bad.append("type set %s contains duplicates" % name)
        else:
            r = rel_snakes[info["base"]]
            rel_idx[r][info["age"]].append((name, info, rows))
    for t in sig.all_types:
        new, old = tsets[t]["new"], tsets[t]["old"]
        if new is None or old is None:
            raise HarnessError("type %s lacks a new/old type set field" % t)
        if new & old:
            bad.append("type %s: ids %s are in the new and the old type set" % (t, sorted(new & old)))
        want = set(roots[t])
        if (new | old) != want:
            bad.append("type %s: type sets hold %s but the roots of the allocated ids are %s" % (t, sorted(new | old), sorted(want)))
        it = pub["types"][t]
        if len(it) != len(set(it)):
            bad.append("iter_%s yields a duplicate: %s" % (snake(t), it))
        if set(it) != want:
            bad.append("iter_%s yields %s, roots are %s" % (snake(t), sorted(it), sorted(want)))
        if new and old:
            stats["dumps_with_new_and_old_elements"] = 1
    # ---- relation copies (I1, I2, I3, I5)
    for r, cols in sig.rels.items():
        ar = len(cols)
        T = {}
        for age in ("new", "old"):
            copies = rel_idx[r][age]
            prim = None
            diag = []
            for name, info, rows in copies:
                if len(set(map(tuple, rows))) != len(rows):
                    bad.append("index %s holds a row twice" % name)
                dec = decode_index_rows(info, rows, ar)
                if info["eqs"] is None:
                    if prim is None:
                        prim = (name, set(dec))
                    elif set(dec) != prim[1]:
                        bad.append("relation %s: copies %s and %s differ: only in first %s, only in second %s" % (
                            r, prim[0], name, sorted(prim[1] - set(dec))[:4], sorted(set(dec) - prim[1])[:4]))
                else:
                    diag.append((name, info, set(dec)))
            if prim is None:
                raise HarnessError("relation %s has no non-diagonal %s index" % (r, age))
            T[age] = prim[1]
            for name, info, dec in diag:
                e = info["eqs"]
                want = set(t for t in prim[1] if all(t[i] == t[e[i]] for i in range(ar)))
                if dec != want:
                    bad.append("relation %s: diagonal copy %s holds %s but the rows of that age satisfying the pattern %s are %s" % (
                        r, name, sorted(dec)[:6], e, sorted(want)[:6]))
                if want and (prim[1] - want):
                    stats["diagonal_copies_with_both_kinds_of_rows"] = stats.get("diagonal_copies_with_both_kinds_of_rows", 0) + 1
            if len(copies) >= 3:
                stats["relations_with_3plus_copies"] = 1
        if T["new"] & T["old"]:
            bad.append("relation %s: rows %s are in the new and in the old partition" % (r, sorted(T["new"] & T["old"])[:4]))
        if T["new"] and T["old"]:
            stats["dumps_with_new_and_old_rows"] = 1
        allrows = T["new"] | T["old"]
        for t in allrows:
            for i, ty in enumerate(cols):
                if not is_root(ty, t[i]):
                    bad.append("relation %s: row %s holds the non-root id %d of type %s" % (r, t, t[i], ty))
                fld = "%s_%s_element_index" % (snake(r), snake(ty))
                ei = priv["elidx"].get(fld)
                if ei is None:
                    raise HarnessError("missing element index field " + fld)
                if list(t) not in ei.get(str(t[i]), []):
                    bad.append("relation %s: row %s is missing from the row list of its element %s#%d (%s)" % (r, t, ty, t[i], fld))
        it = [tuple(x) for x in pub["rels"][r]]
        if len(it) != len(set(it)):
            bad.append("iter_%s yields a tuple twice: %s" % (snake(r), it))
        if set(it) != allrows:
            bad.append("iter_%s yields %s but the index copies hold %s" % (snake(r), sorted(it)[:8], sorted(allrows)[:8]))
        if len(bad) >= limit:
            return bad[:limit], stats
    # ---- uprooted lists (I4)
    if quiescent:
        for name, v in priv["uprooted"].items():
            if v:
                bad.append("uprooted list %s is not empty at a quiescent point: %s" % (name, v))
    # ---- point queries (I5) and enum cases (I6)
    if sweep is not None:
        def rooted(cols, t):
            return tuple(roots[ty][x] for ty, x in zip(cols, t))
        for p, cols in sig.preds.items():
            got = set(tuple(t) for t in sweep["preds"][p])
            rows = set(tuple(x) for x in pub["rels"][p])
            if not sweep["truncated"]:
                import itertools
                want = set()
                rng = [range(len(roots[ty])) for ty in cols]
                total = 1
                for x in rng:
                    total *= len(x)
                if total <= 4096:
                    for t in itertools.product(*rng):
                        if rooted(cols, t) in rows:
                            want.add(t)
                    if got != want:
                        bad.append("point query %s(..) disagrees with iter_%s on arguments %s (true by query only) / %s (true by iterator only; includes substitutions of equal non-root elements)" % (
                            p, p, sorted(got - want)[:4], sorted(want - got)[:4]))
                    nonroot = [t for t in want if rooted(cols, t) != t]
                    if nonroot:
                        stats["queries_with_nonroot_representatives"] = stats.get("queries_with_nonroot_representatives", 0) + len(nonroot)
            else:
                for t in got:
                    if rooted(cols, t) not in rows:
                        bad.append("point query %s%s is true but the iterator does not list its root tuple" % (p, t))
        for f, (cols, res) in sig.funcs.items():
            rows = {}
            for x in pub["rels"][f]:
                rows.setdefault(tuple(x[:-1]), set()).add(x[-1])
            got = {}
            for t in sweep["funcs"][f]:
                got[tuple(t[:-1])] = t[-1]
            for args, val in got.items():
                ra = rooted(cols, args)
                if val not in rows.get(ra, ()):  # any stored value is acceptable mid-close
                    bad.append("evaluation %s%s = %d but the graph iterator lists values %s for the root arguments %s" % (f, args, val, sorted(rows.get(ra, ())), ra))
            if not sweep["truncated"]:
                import itertools
                rng = [range(len(roots[ty])) for ty in cols]
                total = 1
                for x in rng:
                    total *= len(x)
                if total <= 4096:
                    for t in itertools.product(*rng):
                        if rooted(cols, t) in rows and t not in got:
                            bad.append("evaluation %s%s is None although the graph lists a value for the equal root arguments %s" % (f, t, rooted(cols, t)))
        for E, lists in sweep["cases"].items():
            e = sig.enums[E]
            for idv, cases in enumerate(lists):
                want = set()
                rid = roots[E][idv]
                for c in e["ctors"]:
                    for row in pub["rels"][c["name"]]:
                        if row[-1] == rid:
                            want.add((c["name"],) + tuple(row[:-1]))
                got = [tuple(x) for x in cases]
                if set(got) != want or len(got) != len(set(got)):
                    bad.append("%s_cases(%d) = %s but the constructor graphs with result %d are %s" % (snake(E), idv, got, rid, sorted(want)))
    return bad[:limit], stats
