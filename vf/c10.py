"""C10: the static checks accept exactly the well-formed programs and name the right error.

Runtime monitor around the real CLI.  Two populations of programs are compiled and the
accept/reject verdict plus the first line and the `--> file:line` of the diagnostic are observed:

 * well-formed programs: typed-generator output (well-formed by construction: every variable is
   bound and typed by an if-atom, every then-term is a bound variable or an application that
   occurs syntactically earlier, `!` introduces the rest), the repository's accepted theories, and
   hand-written programs that sit right at the boundary of the surjectivity / typing rules;
 * single-defect mutants of the generated programs: one mutation operator plants one named defect
   and declares the diagnostics that a correct compiler may answer with: {(class, lines)} of the
   defect itself plus the defects it implies (a renamed variable also "occurs only once", ...).
   A mutant that is accepted, or rejected with a class/line outside that set, is a violation.
"""
import copy
import json
import os
import random
import re

from . import gen, ref
from .c11 import check_diagnostic, compile_bytes
from .checks_model import _cnt, _empty_out, _inc, aggregate
from .modelrun import pmap
from .theory import Sig, atom_str, atom_terms, atom_vars, term_str, term_vars, var, wild, app
from .util import MIRROR, VERIF, Result, seed, sha

# error classes: name -> regex on the first line after "Error: "
CLASSES = {
    "UND": r'^undeclared symbol "',
    "TWICE": r"^symbol declared multiple times$",
    "KIND": r"^expected .*, found ",
    "FARGS": r"^function takes \d+ arguments but \d+ were supplied$",
    "PARGS": r"^predicate takes \d+ arguments but \d+ were supplied$",
    "CONFL": r"^term has conflicting types:$",
    "UNDET": r"^type of term undetermined$",
    "VTHEN": r"^variable introduced in then statement$",
    "WTHEN": r"^wildcards must not appear in then statements$",
    "ONCE": r'^variable ".*" occurs only once$',
    "SURJ": r"^term does not appear earlier in this rule$",
    "ENUMCTOR": r'^term of enum type ".*" is not introduced with constructor',
    "MISSING": r"^Missing match case:$",
    "PATVAR": r"^Pattern is a variable$",
    "PATWILD": r"^Pattern is a wildcard$",
    "NESTED": r"^Nested patterns are not supported yet$",
    "NOTFRESH": r"^Variable in pattern has been used before$",
    "CONFLENUM": r"^Conflicting pattern types$",
    "NOTVAR": r"^expected a variable$",
    "NOTNEW": r"^variable has already been introduced earlier$",
    "SYNTAX": r"^(invalid token|unexpected end of file|unrecognized token|unexpected token)$",
    "CASE": r"is not (UpperCamelCase|lower_snake_case)$",
}


def classify(msg):
    for k, rx in CLASSES.items():
        if re.search(rx, msg):
            return k
    return "OTHER"


# ---------------------------------------------------------------------------------------------
# emitter with line marks.  A node (declaration, rule, statement, match case) may carry "_m": a
# mark name (or list of names); every line the node emits is recorded under each of its marks.


class Emitter:
    def __init__(self):
        self.lines = []
        self.marks = {}
        self.stack = []

    def push(self, node):
        m = node.get("_m") if isinstance(node, dict) else None
        ms = [] if m is None else (list(m) if isinstance(m, (list, tuple)) else [m])
        self.stack.append(ms)

    def pop(self):
        self.stack.pop()

    def line(self, text):
        self.lines.append(text)
        n = len(self.lines)
        for ms in self.stack:
            for m in ms:
                self.marks.setdefault(m, set()).add(n)

    def stmts(self, stmts, ind):
        pad = "    " * ind
        for s in stmts:
            self.push(s)
            k = s["k"]
            if k in ("if", "then"):
                self.line("%s%s %s;" % (pad, k, atom_str(s["atom"])))
            elif k == "raw":
                for t in s["lines"]:
                    self.line(pad + t)
            elif k == "branch":
                for i, b in enumerate(s["blocks"]):
                    self.line(pad + ("branch {" if i == 0 else "} along {"))
                    self.stmts(b, ind + 1)
                self.line(pad + "}")
            elif k == "match":
                self.line("%smatch %s {" % (pad, term_str(s["term"])))
                for c in s["cases"]:
                    self.push(c)
                    pat = c.get("pat") or "%s(%s)" % (c["ctor"], ", ".join(c["vars"]))
                    if c["body"]:
                        self.line("%s    %s => {" % (pad, pat))
                        self.stmts(c["body"], ind + 2)
                        self.line("%s    }" % pad)
                    else:
                        self.line("%s    %s => {}" % (pad, pat))
                    self.pop()
                self.line("%s}" % pad)
            else:
                raise ValueError(k)
            self.pop()


def emit_marked(th):
    e = Emitter()
    for t in th.get("types", []):
        node = t if isinstance(t, dict) else {"name": t}
        e.push(node)
        e.line("type %s;" % node["name"])
        e.pop()
    for en in th.get("enums", []):
        e.push(en)
        e.line("enum %s {" % en["name"])
        for i, c in enumerate(en["ctors"]):
            e.push(c)
            e.line("    %s(%s)%s" % (c["name"], ", ".join(c["args"]), "," if i + 1 < len(en["ctors"]) else ""))
            e.pop()
        e.line("}")
        e.pop()
    for p in th.get("preds", []):
        e.push(p)
        e.line("pred %s(%s);" % (p["name"], ", ".join(p["args"])))
        e.pop()
    for f in th.get("funcs", []):
        e.push(f)
        e.line("func %s(%s) -> %s;" % (f["name"], ", ".join(f["args"]), f["res"]))
        e.pop()
    for r in th.get("rules", []):
        e.push(r)
        e.line("rule %s {" % (r.get("name") or ""))
        e.stmts(r["body"], 1)
        e.line("}")
        e.pop()
    return "\n".join(e.lines) + "\n", e.marks


# ---------------------------------------------------------------------------------------------
# walking rules


def all_stmts(stmts, inside=()):
    """Yields (container_list, index, stmt, inside) for every statement, depth first, in order."""
    for i, s in enumerate(stmts):
        yield stmts, i, s, inside
        if s["k"] == "branch":
            for b in s["blocks"]:
                yield from all_stmts(b, inside + ("branch",))
        elif s["k"] == "match":
            for c in s["cases"]:
                yield from all_stmts(c["body"], inside + ("match",))


def term_sites(t, path=()):
    """Yields (term, setter) for every sub-term; setter(new) replaces it in place via its parent."""
    if t["k"] == "app":
        for i, a in enumerate(t["args"]):
            yield a, (t["args"], i)
            yield from term_sites(a)


def atom_arg_sites(a):
    """(term, (list_or_dict, key)) for every term position of an atom, nested ones included."""
    out = []
    if a["k"] == "pred":
        for i, t in enumerate(a["args"]):
            out.append((t, (a["args"], i)))
            out.extend(term_sites(t))
    elif a["k"] == "eq":
        for key in ("l", "r"):
            out.append((a[key], (a, key)))
            out.extend(term_sites(a[key]))
    elif a["k"] == "def":
        out.append((a["t"], (a, "t")))
        out.extend(term_sites(a["t"]))
    return out


def var_occurrences(rule):
    """name -> list of marks-less positions: (stmt, kind) in order of appearance."""
    occ = {}

    def walk(stmts):
        for s in stmts:
            if s["k"] in ("if", "then"):
                acc = []
                atom_vars(s["atom"], acc)
                for v in acc:
                    occ.setdefault(v, []).append(s)
            elif s["k"] == "branch":
                for b in s["blocks"]:
                    walk(b)
            elif s["k"] == "match":
                acc = []
                term_vars(s["term"], acc)
                for v in acc:
                    occ.setdefault(v, []).append(s)
                for c in s["cases"]:
                    for v in c.get("pat_vars", c["vars"]):
                        if v != "_":
                            occ.setdefault(v, []).append(c)
                    walk(c["body"])
    walk(rule["body"])
    return occ


def add_mark(node, m):
    cur = node.get("_m")
    if cur is None:
        node["_m"] = [m]
    elif isinstance(cur, list):
        if m not in cur:
            cur.append(m)
    else:
        node["_m"] = [cur, m]


def implied_defects(rule, allowed, tag):
    """Defects that follow from variable bookkeeping in the mutated rule: variables occurring once
    (ONCE at that occurrence) and variables whose first occurrence in scope order is a then-atom
    (VTHEN there).  The base program has none, so all of these stem from the mutation."""
    occ = var_occurrences(rule)
    n = 0
    for v, sts in occ.items():
        if len(sts) == 1:
            m = "%s-once-%d" % (tag, n)
            n += 1
            add_mark(sts[0], m)
            allowed.append(("ONCE", m))

    def walk(stmts, bound):
        nonlocal n
        bound = set(bound)
        for s in stmts:
            if s["k"] == "if":
                acc = []
                atom_vars(s["atom"], acc)
                bound.update(acc)
            elif s["k"] == "then":
                a = s["atom"]
                acc = []
                for t in atom_terms(a):
                    term_vars(t, acc)
                new = [v for v in acc if v not in bound]
                if new:
                    m = "%s-vthen-%d" % (tag, n)
                    n += 1
                    add_mark(s, m)
                    allowed.append(("VTHEN", m))
                bound.update(acc)
                if a["k"] == "def" and a.get("v"):
                    bound.add(a["v"])
            elif s["k"] == "branch":
                for b in s["blocks"]:
                    walk(b, bound)
            elif s["k"] == "match":
                acc = []
                term_vars(s["term"], acc)
                bound.update(acc)
                for c in s["cases"]:
                    walk(c["body"], bound | set(v for v in c["vars"] if v != "_"))
    walk(rule["body"], set())


def mark_var_lines(rule, v, m):
    for s in var_occurrences(rule).get(v, []):
        add_mark(s, m)


def direct_typed_occurrences(rule, v):
    """Number of occurrences of v as a direct argument of a predicate atom / application, in a
    `v: T` atom, as the name of `v := t!` or as a pattern variable."""
    n = 0

    def tt(t, top):
        nonlocal n
        if t["k"] == "app":
            for a in t["args"]:
                if a["k"] == "var" and a["n"] == v:
                    n += 1
                tt(a, False)

    def walk(stmts):
        nonlocal n
        for s in stmts:
            if s["k"] in ("if", "then"):
                a = s["atom"]
                if a["k"] == "pred":
                    for t in a["args"]:
                        if t["k"] == "var" and t["n"] == v:
                            n += 1
                        tt(t, False)
                elif a["k"] == "type" and a["v"] == v:
                    n += 1
                elif a["k"] == "def":
                    if a.get("v") == v:
                        n += 1
                    tt(a["t"], True)
                elif a["k"] == "eq":
                    tt(a["l"], True)
                    tt(a["r"], True)
            elif s["k"] == "branch":
                for b in s["blocks"]:
                    walk(b)
            elif s["k"] == "match":
                for c in s["cases"]:
                    if v in c["vars"]:
                        n += 1
                    walk(c["body"])
    walk(rule["body"])
    return n


def _contains(top_stmt, s):
    if top_stmt is s:
        return True
    if top_stmt["k"] == "branch":
        return any(_contains(x, s) for b in top_stmt["blocks"] for x in b)
    if top_stmt["k"] == "match":
        return any(_contains(x, s) for c in top_stmt["cases"] for x in c["body"])
    return False


def visible_top_vars(rule, s):
    """Variables bound by top-level if-atoms that precede the top-level statement containing s
    (these are certainly visible, with their types, at s)."""
    acc = []
    for st in rule["body"]:
        if _contains(st, s):
            break
        if st["k"] == "if":
            atom_vars(st["atom"], acc)
    return acc


def funcs_used(rule):
    used = set()

    def tt(t):
        if t["k"] == "app":
            used.add(t["f"])
            for a in t["args"]:
                tt(a)
    for _, _, s, _ in all_stmts(rule["body"]):
        if s["k"] in ("if", "then"):
            for t in atom_terms(s["atom"]):
                tt(t)
        elif s["k"] == "match":
            for c in s["cases"]:
                used.add(c["ctor"])
    return used


# ---------------------------------------------------------------------------------------------
# mutation operators.  Each takes (rng, th, sig) with th a deep copy it may edit, and returns
# (operator_name, allowed) or None when not applicable.  allowed = [(class, mark)].

FRESH_PRED = "zq_undeclared"
FRESH_FUNC = "zq_unknown"
FRESH_TYPE = "Zqq"
FRESH_VAR = "zqv"


def _atoms(th, kinds=("if", "then"), atom_kinds=None):
    out = []
    for r in th["rules"]:
        for lst, i, s, inside in all_stmts(r["body"]):
            if s["k"] in kinds and (atom_kinds is None or s["atom"]["k"] in atom_kinds):
                out.append((r, lst, i, s, inside))
    return out


def _set(site, new):
    cont, key = site
    cont[key] = new


def op_undeclared_pred(rng, th, sig):
    c = _atoms(th, atom_kinds=("pred",))
    if not c:
        return None
    r, lst, i, s, _ = rng.choice(c)
    s["atom"]["p"] = FRESH_PRED
    add_mark(s, "P")
    add_mark(r, "R")
    al = [("UND", "P"), ("UNDET", "R")]
    return "undeclared-predicate", al


def op_undeclared_func(rng, th, sig):
    c = []
    for r, lst, i, s, _ in _atoms(th):
        for t, site in atom_arg_sites(s["atom"]):
            if t["k"] == "app":
                c.append((r, s, t))
    if not c:
        return None
    r, s, t = rng.choice(c)
    t["f"] = FRESH_FUNC
    add_mark(s, "P")
    add_mark(r, "R")
    return "undeclared-function", [("UND", "P"), ("UNDET", "R")]


def op_undeclared_type(rng, th, sig):
    c = [("pred", p, j) for p in th["preds"] for j in range(len(p["args"]))]
    c += [("func", f, j) for f in th["funcs"] for j in range(len(f["args"]) + 1)]
    for r, lst, i, s, _ in _atoms(th, kinds=("if",), atom_kinds=("type",)):
        c.append(("atom", s, r))
    if not c:
        return None
    k, node, j = rng.choice(c)
    al = [("UND", "P")]
    if k == "atom":
        node["atom"]["ty"] = FRESH_TYPE
        add_mark(j, "R")
        al.append(("UNDET", "R"))
    elif k == "pred" or j < len(node["args"]):
        node["args"][j] = FRESH_TYPE
    else:
        node["res"] = FRESH_TYPE
    add_mark(node, "P")
    return "undeclared-type", al


def op_declared_twice(rng, th, sig):
    al = [("TWICE", "P"), ("TWICE", "Q")]
    choices = []
    for p in th["preds"]:
        choices.append(("pred-pred", p))
        choices.append(("pred-func", p))
        choices.append(("pred-rule", p))
    for f in th["funcs"]:
        choices.append(("func-func", f))
        choices.append(("func-pred", f))
    for i, t in enumerate(th["types"]):
        choices.append(("type-type", i))
        choices.append(("type-enum", i))
    for e in th["enums"]:
        choices.append(("enum-type", e))
        for c in e["ctors"]:
            choices.append(("ctor-type", (e, c)))
            choices.append(("ctor-ctor", (e, c)))
    for r in th["rules"]:
        if r.get("name"):
            choices.append(("rule-rule", r))
            choices.append(("rule-pred", r))
    if not choices:
        return None
    k, x = rng.choice(choices)
    some_type = sig.types[0]

    def typ(i):
        t = th["types"][i]
        if not isinstance(t, dict):
            t = {"name": t}
            th["types"][i] = t
        return t
    if k == "pred-pred":
        add_mark(x, "P")
        th["preds"].append({"name": x["name"], "args": list(x["args"]), "_m": "Q"})
    elif k == "pred-func":
        add_mark(x, "P")
        th["funcs"].append({"name": x["name"], "args": [], "res": some_type, "_m": "Q"})
        al.append(("KIND", "ANY"))
    elif k == "pred-rule":
        add_mark(x, "P")
        th["rules"].append({"name": x["name"], "body": [{"k": "if", "atom": {"k": "type", "v": "a", "ty": some_type}}, {"k": "then", "atom": {"k": "eq", "l": var("a"), "r": var("a")}}], "_m": "Q"})
        al.append(("KIND", "ANY"))
    elif k == "func-func":
        add_mark(x, "P")
        th["funcs"].append({"name": x["name"], "args": list(x["args"]), "res": x["res"], "_m": "Q"})
    elif k == "func-pred":
        add_mark(x, "P")
        th["preds"].append({"name": x["name"], "args": list(x["args"]), "_m": "Q"})
        al.append(("KIND", "ANY"))
    elif k == "type-type":
        add_mark(typ(x), "P")
        th["types"].append({"name": typ(x)["name"], "_m": "Q"})
    elif k == "type-enum":
        add_mark(typ(x), "P")
        th["enums"].append({"name": typ(x)["name"], "ctors": [{"name": "ZqOnly", "args": []}], "_m": "Q"})
    elif k == "enum-type":
        add_mark(x, "P")
        th["types"].append({"name": x["name"], "_m": "Q"})
    elif k == "ctor-type":
        add_mark(x[1], "P")
        th["types"].append({"name": x[1]["name"], "_m": "Q"})
        al.append(("KIND", "ANY"))
    elif k == "ctor-ctor":
        add_mark(x[1], "P")
        x[0]["ctors"].append({"name": x[1]["name"], "args": list(x[1]["args"]), "_m": "Q"})
    elif k == "rule-rule":
        add_mark(x, "P")
        th["rules"].append({"name": x["name"], "body": copy.deepcopy(x["body"]), "_m": "Q"})
    elif k == "rule-pred":
        add_mark(x, "P")
        th["preds"].append({"name": x["name"], "args": [], "_m": "Q"})
    return "declared-twice:" + k, al


def op_wrong_kind(rng, th, sig):
    choices = []
    for r, lst, i, s, _ in _atoms(th, atom_kinds=("pred",)):
        if sig.funcs:
            choices.append(("pred<-func", r, s))
        if any(x.get("name") for x in th["rules"]):
            choices.append(("pred<-rule", r, s))
        choices.append(("pred<-type", r, s))
    for r, lst, i, s, _ in _atoms(th):
        for t, site in atom_arg_sites(s["atom"]):
            if t["k"] == "app" and sig.preds:
                choices.append(("func<-pred", r, s, t))
    for r, lst, i, s, _ in _atoms(th, kinds=("if",), atom_kinds=("type",)):
        if sig.preds:
            choices.append(("type<-pred", r, s))
        if sig.ctor_of:
            choices.append(("type<-ctor", r, s))
        if sig.funcs:
            choices.append(("type<-func", r, s))
    if not choices:
        return None
    c = rng.choice(choices)
    k, r, s = c[0], c[1], c[2]
    add_mark(s, "P")
    add_mark(r, "R")
    al = [("KIND", "P")]
    if k == "pred<-func":
        f = rng.choice(sorted(sig.funcs))
        s["atom"]["p"] = f
    elif k == "pred<-rule":
        s["atom"]["p"] = rng.choice([x["name"] for x in th["rules"] if x.get("name")])
    elif k == "pred<-type":
        s["atom"]["p"] = rng.choice(sig.all_types)
        al.append(("CASE", "P"))
    elif k == "func<-pred":
        c[3]["f"] = rng.choice(sorted(sig.preds))
    elif k == "type<-pred":
        s["atom"]["ty"] = rng.choice(sorted(sig.preds))
        al.append(("CASE", "P"))
    elif k == "type<-ctor":
        s["atom"]["ty"] = rng.choice(sorted(sig.ctor_of))
    elif k == "type<-func":
        s["atom"]["ty"] = rng.choice(sorted(sig.funcs))
        al.append(("CASE", "P"))
    return "wrong-kind:" + k, al


def op_arg_count(rng, th, sig):
    choices = []
    for r, lst, i, s, _ in _atoms(th):
        a = s["atom"]
        if a["k"] == "pred":
            choices.append((r, s, a, "pred"))
        for t, site in atom_arg_sites(a):
            if t["k"] == "app":
                choices.append((r, s, t, "func"))
    if not choices:
        return None
    r, s, node, k = rng.choice(choices)
    args = node["args"]
    add_mark(s, "P")
    al = [("PARGS" if k == "pred" else "FARGS", "P")]
    bound = sorted(var_occurrences(r))
    if args and rng.random() < 0.5:
        removed = args.pop()  # the last one: the remaining arguments keep their positions and types
        name = "one-fewer"
        acc = []
        term_vars(removed, acc)
        for v in acc:
            if direct_typed_occurrences(r, v) == 0:
                mark_var_lines(r, v, "U-" + v)
                al.append(("UNDET", "U-" + v))
    else:
        # the extra argument must be visible and typed at this statement: a variable of the same
        # atom, or (for a top-level statement) one bound by an earlier top-level if-atom
        cand = []
        atom_vars(s["atom"], cand)
        if not cand:
            cand = visible_top_vars(r, s)
        cand = sorted(set(cand))
        if not cand:
            return None
        args.append(var(rng.choice(cand)))
        name = "one-more"
    implied_defects(r, al, "I")
    if s["k"] == "then":
        # the malformed application no longer is (or anchors) a term that occurs earlier
        al.append(("SURJ", "P"))
    return "argument-count:%s:%s" % (k, name), al


def _typed_positions(sig, a):
    """(term, site, expected_type) for direct argument positions of predicate atoms / applications."""
    out = []

    def app_pos(t):
        if t["k"] == "app" and t["f"] in sig.funcs:
            for j, x in enumerate(t["args"]):
                out.append((x, (t["args"], j), sig.funcs[t["f"]][0][j]))
                app_pos(x)
    if a["k"] == "pred" and a["p"] in sig.preds:
        for j, x in enumerate(a["args"]):
            out.append((x, (a["args"], j), sig.preds[a["p"]][j]))
            app_pos(x)
    else:
        for t in atom_terms(a):
            app_pos(t)
    return out


def op_conflicting_types(rng, th, sig):
    if len(sig.all_types) < 2:
        return None
    choices = []
    for r in th["rules"]:
        try:
            vt = ref.infer_types(sig, r["body"])
        except ref.RefError:
            continue
        for lst, i, s, inside in all_stmts(r["body"]):
            if s["k"] == "if":
                for t, site, ty in _typed_positions(sig, s["atom"]):
                    others = [v for v, tv in vt.items() if tv != ty]
                    if t["k"] == "var" and others:
                        choices.append(("replace", r, s, site, ty, others, vt))
        for v, tv in vt.items():
            choices.append(("annotate", r, v, tv))
    if not choices:
        return None
    c = rng.choice(choices)
    if c[0] == "replace":
        _, r, s, site, ty, others, vt = c
        # the replacing variable must be visible at s: restrict to variables occurring in an earlier
        # or the same top-level prefix; simplest sound choice: variables bound by if-atoms of the
        # rule's top level
        top = visible_top_vars(r, s)
        acc = []
        atom_vars(s["atom"], acc)
        others = [v for v in others if v in top or v in acc]
        if not others:
            return None
        w = rng.choice(sorted(others))
        _set(site, var(w))
        # the conflict belongs to the whole class of terms equated with w: any line of the rule
        add_mark(r, "W")
        al = [("CONFL", "W")]
        implied_defects(r, al, "I")
        # the replaced variable may have lost its only typed occurrence
        for v in list(vt):
            if v in var_occurrences(r) and direct_typed_occurrences(r, v) == 0:
                mark_var_lines(r, v, "U-" + v)
                al.append(("UNDET", "U-" + v))
        return "conflicting-types:replace-variable", al
    _, r, v, tv = c
    other = rng.choice([t for t in sig.all_types if t != tv])
    # insert `if v: Other;` right after the first top-level if-atom that mentions v, else skip
    pos = None
    for i, st in enumerate(r["body"]):
        if st["k"] == "if":
            acc = []
            atom_vars(st["atom"], acc)
            if v in acc:
                pos = i + 1
                break
    if pos is None:
        return None
    r["body"].insert(pos, {"k": "if", "atom": {"k": "type", "v": v, "ty": other}})
    add_mark(r, "W")
    return "conflicting-types:annotation", [("CONFL", "W")]


def op_undetermined(rng, th, sig):
    forms = [
        [{"k": "if", "atom": {"k": "eq", "l": var("a"), "r": var("b")}}, {"k": "then", "atom": {"k": "eq", "l": var("b"), "r": var("a")}}],
        [{"k": "if", "atom": {"k": "eq", "l": var("a"), "r": var("a")}}, {"k": "then", "atom": {"k": "eq", "l": var("a"), "r": var("a")}}],
    ]
    body = copy.deepcopy(rng.choice(forms))
    if th["rules"] and rng.random() < 0.5:
        # inside an existing rule: two untyped variables equated in an extra premise
        r = rng.choice(th["rules"])
        r["body"].insert(0, {"k": "if", "atom": {"k": "eq", "l": var("zqa"), "r": var("zqb")}, "_m": "P"})
        r["body"].insert(1, {"k": "if", "atom": {"k": "eq", "l": var("zqb"), "r": var("zqa")}, "_m": "P"})
        return "undetermined-type:in-rule", [("UNDET", "P")]
    th["rules"].append({"name": "zq_und", "body": body, "_m": "P"})
    return "undetermined-type:new-rule", [("UNDET", "P")]


def _then_var_sites(th):
    out = []
    for r, lst, i, s, inside in _atoms(th, kinds=("then",)):
        a = s["atom"]
        if a["k"] == "def" and a.get("v"):
            pass
        for t, site in atom_arg_sites(a):
            if t["k"] == "var":
                out.append((r, s, t, site))
    return out


def op_var_in_then(rng, th, sig):
    c = _then_var_sites(th)
    if not c:
        return None
    r, s, t, site = rng.choice(c)
    _set(site, var(FRESH_VAR))
    add_mark(s, "P")
    # a variable that is new in a then-atom is also a term that does not occur earlier, and an
    # application equated with it loses its anchor
    al = [("VTHEN", "P"), ("ONCE", "P"), ("SURJ", "P")]
    implied_defects(r, al, "I")
    if s["atom"]["k"] == "eq":
        al.append(("UNDET", "P"))
    return "variable-introduced-in-then", al


def op_wildcard_in_then(rng, th, sig):
    c = _then_var_sites(th)
    if not c:
        return None
    r, s, t, site = rng.choice(c)
    _set(site, wild())
    add_mark(s, "P")
    al = [("WTHEN", "P"), ("SURJ", "P")]
    implied_defects(r, al, "I")
    if s["atom"]["k"] == "eq":
        al.append(("UNDET", "P"))
    return "wildcard-in-then", al


def op_var_once(rng, th, sig):
    c = []
    for r, lst, i, s, inside in _atoms(th, kinds=("if",)):
        for t, site, ty in _typed_positions(sig, s["atom"]):
            if t["k"] == "var":
                c.append((r, s, t, site))
    if not c:
        return None
    r, s, t, site = rng.choice(c)
    old = t["n"]
    _set(site, var(FRESH_VAR))
    add_mark(s, "P")
    al = [("ONCE", "P")]
    implied_defects(r, al, "I")
    if old in var_occurrences(r) and direct_typed_occurrences(r, old) == 0:
        mark_var_lines(r, old, "U")
        al.append(("UNDET", "U"))
    return "variable-only-once", al


def op_surjectivity(rng, th, sig):
    c = []
    for r in th["rules"]:
        try:
            vt = ref.infer_types(sig, r["body"])
        except ref.RefError:
            continue
        used = funcs_used(r)
        for lst, i, s, inside in all_stmts(r["body"]):
            if s["k"] != "then" or s["atom"]["k"] != "pred":
                continue
            # variables visible here: bound by top-level if-atoms before this point is the
            # conservative choice; use variables occurring in this very atom (certainly visible)
            vis = []
            atom_vars(s["atom"], vis)
            for t, site, ty in _typed_positions(sig, s["atom"]):
                if t["k"] != "var":
                    continue
                for f in sorted(sig.funcs):
                    at, res = sig.funcs[f]
                    if res != ty or f in used:
                        continue
                    if res in sig.enums and f not in sig.ctor_of:
                        continue
                    args = []
                    for aty in at:
                        cands = [v for v in vis if vt.get(v) == aty]
                        if not cands:
                            args = None
                            break
                        args.append(var(rng.choice(cands)))
                    if args is not None:
                        c.append((r, s, site, f, args))
    if not c:
        return None
    r, s, site, f, args = rng.choice(c)
    _set(site, app(f, *args))
    add_mark(s, "P")
    al = [("SURJ", "P")]
    implied_defects(r, al, "I")
    return "non-surjective-conclusion", al


def _first_type(sig):
    return sig.types[0]


def op_enum_not_ctor(rng, th, sig):
    t = _first_type(sig)
    if not th["enums"]:
        th["enums"].append({"name": "Zqe", "ctors": [{"name": "ZqeA", "args": []}, {"name": "ZqeB", "args": [t]}]})
    e = th["enums"][0]["name"]
    th["funcs"].append({"name": "zq_mk", "args": [t], "res": e})
    form = rng.randrange(3)
    if form == 0:
        body = [{"k": "if", "atom": {"k": "type", "v": "a", "ty": t}}, {"k": "then", "atom": {"k": "def", "t": app("zq_mk", var("a"))}, "_m": "P"}]
    elif form == 1:
        th["preds"].append({"name": "zq_on", "args": [e]})
        body = [{"k": "if", "atom": {"k": "type", "v": "a", "ty": t}}, {"k": "then", "atom": {"k": "def", "t": app("zq_mk", var("a")), "v": "b"}, "_m": "P"},
                {"k": "then", "atom": {"k": "pred", "p": "zq_on", "args": [var("b")]}}]
    else:
        th["preds"].append({"name": "zq_at", "args": [t]})
        body = [{"k": "if", "atom": {"k": "pred", "p": "zq_at", "args": [var("a")]}},
                {"k": "branch", "blocks": [[{"k": "then", "atom": {"k": "def", "t": app("zq_mk", var("a"))}, "_m": "P"}], [{"k": "then", "atom": {"k": "pred", "p": "zq_at", "args": [var("a")]}}]]}]
    th["rules"].append({"name": "zq_mk_rule", "body": body})
    return "enum-term-not-constructor:%d" % form, [("ENUMCTOR", "P")]


def _match_scaffold(th, sig):
    t = _first_type(sig)
    th["enums"].append({"name": "Zqm", "ctors": [{"name": "ZqmA", "args": []}, {"name": "ZqmB", "args": [t]}, {"name": "ZqmC", "args": ["Zqm", t]}]})
    th["preds"].append({"name": "zq_pair", "args": ["Zqm", t]})
    th["preds"].append({"name": "zq_seen", "args": [t]})
    cases = [
        {"ctor": "ZqmA", "vars": [], "body": []},
        {"ctor": "ZqmB", "vars": ["b"], "body": [{"k": "then", "atom": {"k": "pred", "p": "zq_seen", "args": [var("b")]}}]},
        {"ctor": "ZqmC", "vars": ["c", "d"], "body": [{"k": "then", "atom": {"k": "pred", "p": "zq_pair", "args": [var("c"), var("d")]}}]},
    ]
    m = {"k": "match", "term": var("e"), "cases": cases}
    r = {"name": "zq_match", "body": [{"k": "if", "atom": {"k": "pred", "p": "zq_pair", "args": [var("e"), var("t")]}}, {"k": "if", "atom": {"k": "pred", "p": "zq_seen", "args": [var("t")]}}, m]}
    th["rules"].append(r)
    # further, complete match statements on the same enum: one in another rule and one nested in a
    # case of the first (exhaustiveness is a property of each statement, not of the program)
    def full(v, tag):
        return {"k": "match", "term": var(v), "cases": [
            {"ctor": "ZqmA", "vars": [], "body": []},
            {"ctor": "ZqmB", "vars": ["_"], "body": []},
            {"ctor": "ZqmC", "vars": ["_", "k" + tag], "body": [{"k": "then", "atom": {"k": "pred", "p": "zq_seen", "args": [var("k" + tag)]}}]}]}
    th["rules"].append({"name": "zq_match_other", "body": [{"k": "if", "atom": {"k": "pred", "p": "zq_pair", "args": [var("g"), var("_u")]}} if False else {"k": "if", "atom": {"k": "pred", "p": "zq_pair", "args": [var("g"), wild()]}}, full("g", "a")]})
    cases[2]["body"].append(full("c", "b"))
    return r, m


def op_match(rng, th, sig):
    r, m = _match_scaffold(th, sig)
    k = rng.choice(["missing", "pattern-variable", "pattern-wildcard", "nested", "not-fresh", "two-enums"])
    if k == "missing":
        del m["cases"][rng.randrange(3)]
        m["_m"] = "P"
        return "match:missing-case", [("MISSING", "P")]
    if k == "pattern-variable":
        i = rng.randrange(3)
        m["cases"][i] = {"ctor": "ZqmA", "vars": [], "pat": "w", "pat_vars": ["w"], "body": [], "_m": "P"}
        m["_m"] = "M"
        return "match:pattern-is-variable", [("PATVAR", "P"), ("ONCE", "P"), ("MISSING", "M")]
    if k == "pattern-wildcard":
        i = rng.randrange(3)
        m["cases"][i] = {"ctor": "ZqmA", "vars": [], "pat": "_", "pat_vars": [], "body": [], "_m": "P"}
        m["_m"] = "M"
        return "match:pattern-is-wildcard", [("PATWILD", "P"), ("MISSING", "M")]
    if k == "nested":
        m["cases"][2] = {"ctor": "ZqmC", "vars": ["d"], "pat": "ZqmC(ZqmA(), d)", "pat_vars": ["d"], "body": [{"k": "then", "atom": {"k": "pred", "p": "zq_seen", "args": [var("d")]}}], "_m": "P"}
        return "match:nested-pattern", [("NESTED", "P")]
    if k == "not-fresh":
        m["cases"][1] = {"ctor": "ZqmB", "vars": ["t"], "body": [], "_m": "P"}
        return "match:pattern-variable-not-fresh", [("NOTFRESH", "P")]
    th["enums"].append({"name": "Zqn", "ctors": [{"name": "ZqnA", "args": []}]})
    m["cases"].append({"ctor": "ZqnA", "vars": [], "body": [], "_m": "P"})
    m["_m"] = "M"
    return "match:constructors-of-two-enums", [("CONFLENUM", "M"), ("CONFL", "M")]


def op_then_defined(rng, th, sig):
    c = []
    for r in th["rules"]:
        try:
            vt = ref.infer_types(sig, r["body"])
        except ref.RefError:
            continue
        top = []
        for st in r["body"]:
            if st["k"] == "if":
                atom_vars(st["atom"], top)
        for f in sorted(sig.funcs):
            at, res = sig.funcs[f]
            if res in sig.enums and f not in sig.ctor_of:
                continue
            ys = [v for v in top if vt.get(v) == res]
            args = []
            for aty in at:
                cands = [v for v in top if vt.get(v) == aty]
                if not cands:
                    args = None
                    break
                args.append(var(rng.choice(cands)))
            if ys and args is not None:
                c.append((r, f, args, rng.choice(ys)))
    if not c:
        return None
    r, f, args, y = rng.choice(c)
    # append at top level after the last top-level statement: all top-level if-variables are visible
    r["body"].append({"k": "then", "atom": {"k": "def", "t": app(f, *args), "v": y}, "_m": "P"})
    return "then-defined-variable-not-new", [("NOTNEW", "P")]


OPERATORS = [op_undeclared_pred, op_undeclared_func, op_undeclared_type, op_declared_twice, op_wrong_kind, op_arg_count,
             op_conflicting_types, op_undetermined, op_var_in_then, op_wildcard_in_then, op_var_once, op_surjectivity,
             op_enum_not_ctor, op_match, op_then_defined]


# ---------------------------------------------------------------------------------------------
# hand-written boundary programs: (name, text, expected) with expected = "accept" or (class, line)

DECL = "type A;\ntype B;\nfunc f(A) -> A;\nfunc g(A, A) -> A;\nfunc h(A) -> B;\nfunc k() -> A;\npred p(A);\npred q(A, A);\npred s(B);\n"
NDECL = DECL.count("\n")


def _rule(body_lines):
    return DECL + "rule t {\n" + "".join("    %s\n" % l for l in body_lines) + "}\n"


BOUNDARY = [
    # accepted: the README's valid examples, transcribed to this signature
    ("readme-typed-variable", _rule(["if x: A;", "then x = x;"]), "accept"),
    ("readme-defined-in-then", _rule(["if q(z, x);", "if q(z, y);", "then g(x, y)!;", "then q(z, g(x, y));"]), "accept"),
    ("readme-defined-in-if", _rule(["if q(z, x);", "if q(z, y);", "if g(x, y)!;", "then q(z, g(x, y));"]), "accept"),
    ("readme-lhs-in-if", _rule(["if g(x, y)!;", "then g(y, x) = g(x, y);"]), "accept"),
    ("readme-rhs-earlier-then", _rule(["if x: A;", "if y: A;", "then g(x, y)!;", "then g(y, x) = g(x, y);"]), "accept"),
    ("readme-assoc-valid", _rule(["if u = g(x, g(y, z));", "if g(x, y)!;", "then u = g(g(x, y), z);"]), "accept"),
    # accepted: a new application equated with an earlier term (function insertion)
    ("insert-function-value", _rule(["if p(x);", "if p(y);", "then f(x) = y;"]), "accept"),
    ("insert-function-value-flipped", _rule(["if p(x);", "if p(y);", "then y = f(x);"]), "accept"),
    ("insert-constant-value", _rule(["if p(x);", "then k() = x;"]), "accept"),
    # accepted: a term equal to an earlier one only through a premise equality / congruence
    ("congruence-through-premise-equality", _rule(["if y = f(x);", "if x = z;", "if p(z);", "then p(f(z));", "then p(y);"]), "accept"),
    ("congruence-two-levels", _rule(["if y = f(f(x));", "if f(x) = z;", "then p(f(z));", "then p(y);"]), "accept"),
    ("equal-to-earlier-via-then-equation", _rule(["if p(x);", "if p(y);", "then f(x) = y;", "then p(f(x));"]), "accept"),
    ("defined-then-used-in-nested", _rule(["if p(x);", "then f(x)!;", "then f(f(x))!;", "then p(f(f(x)));"]), "accept"),
    ("named-definition", _rule(["if p(x);", "then y := f(x)!;", "then q(x, y);"]), "accept"),
    ("types-through-equality-chain", _rule(["if a = b;", "if b = c;", "if p(c);", "then q(a, b);"]), "accept"),
    ("variable-scoped-across-branches", _rule(["if p(x);", "branch {", "    if q(x, y);", "    then p(y);", "} along {", "    if q(y, x);", "    then p(y);", "}", "then p(x);"]), "accept"),
    ("if-after-then", _rule(["if p(x);", "then f(x)!;", "if q(f(x), y);", "then p(y);"]), "accept"),
    ("wildcard-in-if", _rule(["if q(x, _);", "then p(x);"]), "accept"),
    ("same-variable-twice-in-atom", _rule(["if q(x, x);", "then p(x);"]), "accept"),
    ("defined-constant-in-then", _rule(["then k()!;"]), "accept"),
    ("result-in-other-type", _rule(["if p(x);", "then h(x)!;", "then s(h(x));"]), "accept"),
    # rejected near-misses of the above, with the class and line of the defect
    ("readme-untyped", _rule(["if x = x;", "then x = x;"]), ("UNDET", [NDECL + 2, NDECL + 3])),
    ("readme-vars-not-introduced", _rule(["then g(x, y)!;"]), ("VTHEN", [NDECL + 2])),
    ("readme-meet-not-earlier", _rule(["if q(z, x);", "if q(z, y);", "then q(z, g(x, y));"]), ("SURJ", [NDECL + 4])),
    ("readme-both-new", _rule(["if x: A;", "if y: A;", "then g(x, y) = g(y, x);"]), ("SURJ", [NDECL + 4])),
    ("readme-assoc-invalid", _rule(["if u = g(x, g(y, z));", "then g(g(x, y), z) = u;"]), ("SURJ", [NDECL + 3])),
    ("nested-new-argument", _rule(["if p(x);", "if p(y);", "then f(f(x)) = y;"]), ("SURJ", [NDECL + 4])),
    ("new-term-in-predicate", _rule(["if p(x);", "then p(f(x));"]), ("SURJ", [NDECL + 3])),
    ("new-term-in-branch", _rule(["if p(x);", "branch {", "    then p(f(x));", "} along {", "    then p(x);", "}"]), ("SURJ", [NDECL + 4])),
    ("defined-in-other-branch-only", _rule(["if p(x);", "branch {", "    then f(x)!;", "} along {", "    then p(f(x));", "}"]), ("SURJ", [NDECL + 6])),
    ("defined-in-branch-used-after", _rule(["if p(x);", "branch {", "    then f(x)!;", "} along {", "    then p(x);", "}", "then p(f(x));"]), ("SURJ", [NDECL + 8])),
    ("congruence-without-the-equality", _rule(["if y = f(x);", "if q(x, z);", "then p(f(z));", "then p(y);"]), ("SURJ", [NDECL + 4])),
    ("new-constant-in-predicate", _rule(["if p(x);", "then q(x, k());"]), ("SURJ", [NDECL + 3])),
    ("variable-once", _rule(["if q(x, y);", "then p(x);"]), ("ONCE", [NDECL + 2])),
    ("wildcard-then", _rule(["if p(x);", "then q(x, _);"]), ("WTHEN", [NDECL + 3])),
    ("conflict-via-equality", _rule(["if p(x);", "if s(y);", "if x = y;", "then p(x);"]), ("CONFL", [NDECL + 2, NDECL + 3, NDECL + 4, NDECL + 5])),
    ("conflict-app-result", _rule(["if s(f(x));", "then p(x);"]), ("CONFL", [NDECL + 2])),
    ("then-defined-not-var", _rule(["if p(x);", "then f(x) := f(x)!;"]), ("NOTVAR|SYNTAX", [NDECL + 3])),
    ("then-defined-var-bound", _rule(["if p(x);", "if p(y);", "then y := f(x)!;"]), ("NOTNEW", [NDECL + 4])),
    ("too-many-args", _rule(["if p(x, x);", "then p(x);"]), ("PARGS", [NDECL + 2])),
    ("too-few-args-func", _rule(["if y = g(x);", "then q(x, y);"]), ("FARGS", [NDECL + 2])),
    ("undeclared", _rule(["if p(x);", "then r(x);"]), ("UND", [NDECL + 3])),
    ("pred-as-func", _rule(["if y = p(x);", "then q(x, y);"]), ("KIND", [NDECL + 2])),
    ("func-as-pred", _rule(["if p(x);", "then f(x);"]), ("KIND", [NDECL + 3])),
    ("duplicate-constructor", "type A;\nenum E {\n    Ca(),\n    Cb(A),\n    Ca()\n}\npred p(E);\nrule t {\n    if p(x);\n    then Ca() = x;\n}\n", ("TWICE", [3, 5])),
    ("duplicate-constructor-in-match", "type A;\nenum E {\n    Ca(),\n    Cb(A),\n    Ca()\n}\npred p(E);\nrule t {\n    if p(x);\n    match x {\n        Ca() => {}\n        Cb(_) => {}\n    }\n    then p(x);\n}\n", ("TWICE", [3, 5])),
]


def corpus_accepted():
    out = []
    ev = os.path.join(MIRROR, "eqlog-test-eval", "src")
    for f in sorted(os.listdir(ev)):
        if f.endswith(".eql"):
            out.append(("eval/" + f, open(os.path.join(ev, f)).read()))
    td = os.path.join(VERIF, "theories")
    for f in sorted(os.listdir(td)):
        if f.endswith(".eql"):
            out.append(("hostile/" + f, open(os.path.join(td, f)).read()))
    return out


def corpus_rejected():
    """The repository's own error tests: (name, text, first line of expected-error.txt, line)."""
    out = []
    et = os.path.join(MIRROR, "eqlog-test-compile", "error-test-source")
    for d in sorted(os.listdir(et)):
        p = os.path.join(et, d, "theory.eql")
        e = os.path.join(et, d, "expected-error.txt")
        if os.path.exists(p) and os.path.exists(e):
            exp = open(e).read()
            m = re.search(r"--> .*:(\d+)\n", exp)
            out.append(("err/" + d, open(p).read(), exp.split("\n")[0][len("Error: "):], int(m.group(1)) if m else None))
    return out


# ---------------------------------------------------------------------------------------------

DUP_CTOR_KEY = "c10:duplicate-constructor-accepted-when-used-as-match-pattern"


def strip_matches(th):
    """Copy of th with every match statement removed (rules left without a then-atom are dropped)."""
    th = json.loads(json.dumps(th))

    def strip(stmts):
        out = []
        for s in stmts:
            if s["k"] == "match":
                continue
            if s["k"] == "branch":
                s = dict(s)
                s["blocks"] = [strip(b) for b in s["blocks"]]
            out.append(s)
        return out
    rules = []
    for r in th["rules"]:
        r["body"] = strip(r["body"])
        if gen._has_then(r["body"]):
            rules.append(r)
    th["rules"] = rules
    return th


def _vio(key, what, text, extra=None):
    files = {"input.eql": text}
    if extra:
        files.update(extra)
    return {"key": key, "what": what, "files": files}


def observe(text):
    res = compile_bytes(text.encode("utf-8"))
    if res["status"] == "ok":
        return "accept", None, None, res
    if res["status"] != "error":
        return res["status"], None, None, res
    msg, blocks, problems = check_diagnostic(text, res["stderr"])
    if msg is None or not blocks:
        return "error-unparsed", msg, None, res
    return "reject", msg, blocks[0]["first_line"], res


def c10_task(task):
    out = _empty_out()
    kind = task["kind"]
    if kind == "boundary":
        name, text, exp = task["case"]
        st, msg, line, res = observe(text)
        out["evaluations"] += 1
        if st not in ("accept", "reject"):
            _inc(out, "compiler-" + st)
            return out
        out["distinct"].append(sha(text)[:16])
        if exp == "accept":
            _cnt(out, "boundary_accept_cases")
            if st != "accept":
                out["violations"].append(_vio("c10:boundary-rejected:" + name, "well-formed boundary program '%s' is rejected:\n%s" % (name, res["stderr"][:800]), text))
        else:
            _cnt(out, "boundary_reject_cases")
            cls, lines = exp
            if st == "accept":
                out["violations"].append(_vio(DUP_CTOR_KEY if name == "duplicate-constructor-in-match" else "c10:boundary-accepted:" + name, "ill-formed boundary program '%s' (defect %s on line %s) is accepted" % (name, cls, lines), text))
            elif classify(msg) not in cls.split("|") or line not in lines:
                out["violations"].append(_vio("c10:boundary-wrong-error:" + name, "boundary program '%s': expected %s on line %s, got '%s' (%s) on line %s\n%s" % (name, cls, lines, msg, classify(msg), line, res["stderr"][:800]), text))
        if not out["samples"] and exp != "accept":
            out["samples"].append({"program": text, "expected": exp, "observed": [st, msg, line]})
        return out
    if kind == "corpus-accept":
        name, text = task["case"]
        st, msg, line, res = observe(text)
        out["evaluations"] += 1
        if st not in ("accept", "reject"):
            _inc(out, "compiler-" + st)
            return out
        _cnt(out, "corpus_accept_cases")
        out["distinct"].append(sha(text)[:16])
        if st != "accept":
            out["violations"].append(_vio("c10:corpus-rejected:" + name, "the accepted theory %s is rejected:\n%s" % (name, res["stderr"][:800]), text))
        return out
    if kind == "corpus-reject":
        name, text, emsg, eline = task["case"]
        st, msg, line, res = observe(text)
        out["evaluations"] += 1
        if st not in ("accept", "reject"):
            _inc(out, "compiler-" + st)
            return out
        _cnt(out, "corpus_reject_cases")
        out["distinct"].append(sha(text)[:16])
        if st == "accept":
            out["violations"].append(_vio("c10:corpus-error-accepted:" + name, "the ill-formed program %s is accepted" % name, text))
        elif classify(msg) != classify(emsg) or (eline is not None and line != eline):
            out["violations"].append(_vio("c10:corpus-wrong-error:" + name, "%s: expected '%s' on line %s, got '%s' on line %s" % (name, emsg, eline, msg, line), text))
        return out
    # generated program + mutants
    th = gen.gen_theory(task["tseed"], task["profile"], name="th")
    if not th["rules"]:
        _inc(out, "generated-theory-without-rules")
        return out
    sig = Sig(th)
    base_text, _ = emit_marked(th)
    st, msg, line, res = observe(base_text)
    out["evaluations"] += 1
    if st not in ("accept", "reject"):
        _inc(out, "compiler-" + st)
        return out
    _cnt(out, "generated_wellformed")
    out["distinct"].append(sha(base_text)[:16])
    if st != "accept":
        out["violations"].append(_vio("c10:wellformed-rejected:" + classify(msg), "a program that is well-formed by construction (typed generator, profile %s) is rejected: %s on line %s\n%s" % (task["profile"], msg, line, res["stderr"][:800]), base_text))
        return out
    rng = random.Random(sha(str(task["tseed"]), "mut", str(task["seed"])))
    ops = list(OPERATORS)
    rng.shuffle(ops)
    done = 0
    for op in ops * 2:
        if done >= task["n_mut"]:
            break
        mth = json.loads(json.dumps(th))  # also un-shares term objects the generator reuses
        try:
            r = op(rng, mth, Sig(th))
        except ref.RefError:
            r = None
        if r is None:
            continue
        name, allowed = r
        text, marks = emit_marked(mth)
        if text == base_text:
            continue
        done += 1
        st, msg, line, res = observe(text)
        out["evaluations"] += 1
        if st not in ("accept", "reject"):
            if st in ("crash", "cpu-limit"):
                out["violations"].append(_vio("c10:compiler-" + st + ":" + name.split(":")[0], "mutant (%s): the compiler ended with %s\n%s" % (name, st, res["stderr"][-800:]), text))
            else:
                _inc(out, "compiler-" + st)
            continue
        _cnt(out, "mutants")
        _cnt(out, "op_" + name.split(":")[0])
        out["distinct"].append(sha(text)[:16])
        allowed_res = []
        for cls, m in allowed:
            lines = sorted(marks.get(m, set())) if m != "ANY" else None
            allowed_res.append((cls, lines))
        if st == "accept":
            key = "c10:mutant-accepted:" + name
            note = ""
            if name == "declared-twice:ctor-ctor":
                # classifier for a known finding: the duplicate is only overlooked when the constructor is
                # used as a match pattern; shown differentially by compiling the same mutant without
                # its match statements, which must then be rejected as 'declared multiple times'
                vth = strip_matches(mth)
                if vth is not None:
                    vtext, _ = emit_marked(vth)
                    vst, vmsg, vline, _r = observe(vtext)
                    if vst == "reject" and classify(vmsg) == "TWICE" and vtext != text:
                        key = DUP_CTOR_KEY
                        note = "\nthe same program without its match statements is rejected ('%s' on line %s)" % (vmsg, vline)
            out["violations"].append(_vio(key, "single-defect mutant (%s) is accepted; planted defect: %s%s" % (name, allowed_res[:3], note), text, {"base.eql": base_text}))
            continue
        cls = classify(msg)
        ok = any(cls == c and (ls is None or line in ls) for c, ls in allowed_res)
        _cnt(out, "reported_" + cls)
        if not ok:
            out["violations"].append(_vio("c10:wrong-error:%s:%s" % (name, cls),
                                          "single-defect mutant (%s): the compiler reports '%s' (%s) on line %s; the planted defect allows %s\n%s" % (name, msg, cls, line, allowed_res, res["stderr"][:900]),
                                          text, {"base.eql": base_text}))
        if len(out["samples"]) < 1:
            out["samples"].append({"operator": name, "allowed": allowed_res, "observed": [msg, line], "mutant": text[:900]})
    return out


def c10(tier, replay=None):
    res = Result("C10", tier)
    res.rule = ("one evaluation = one program compiled by the real CLI and judged on accept/reject, error class (first line) and reported line; populations: "
                "typed-generator programs (must be accepted), single-defect mutants from 15 operators (must be rejected with a class/line the planted defect "
                "allows), hand-written boundary programs for surjectivity/typing (accept and near-miss), the repository's accepted theories and its 45 error sources; "
                "distinct = distinct program texts")
    res.assumptions = ["well-formedness of generated programs holds by construction of the typed generator; each mutation operator's allowed diagnostics were calibrated by hand against the language rules of the README and eqlog.eql",
                       "fragment: type/pred/func/enum declarations, rules with if/then, nested terms, branch, match (no models)"]
    q = tier == "quick"
    tasks = [{"kind": "boundary", "case": c} for c in BOUNDARY]
    tasks += [{"kind": "corpus-accept", "case": c} for c in corpus_accepted()]
    tasks += [{"kind": "corpus-reject", "case": c} for c in corpus_rejected()]
    profs = ["mixed", "nonsurj", "diag", "eqprem", "surj", "enum", "mixed", "enum"]
    n = 110 if q else 1500
    for i in range(n):
        tasks.append({"kind": "gen", "tseed": seed() * 100003 + 700000 + i, "profile": profs[i % len(profs)], "seed": seed(), "n_mut": 12 if q else 20})
    aggregate(res, pmap(c10_task, tasks))
    return res.finish()
