"""Theory AST (plain dicts), pretty printer to .eql text, signature helpers.

theory = {name, types:[T], enums:[{name, ctors:[{name,args:[T]}]}], preds:[{name,args:[T]}],
          funcs:[{name,args:[T],res:T}], rules:[{name, body:[stmt]}]}
stmt   = {k:'if',atom} | {k:'then',atom} | {k:'branch',blocks:[[stmt]]}
       | {k:'match',term,cases:[{ctor,vars:[name|'_'],body:[stmt]}]}
atom   = {k:'pred',p,args:[term]} | {k:'eq',l,r} | {k:'def',t[,v]} | {k:'type',v,ty}
term   = {k:'var',n} | {k:'wild'} | {k:'app',f,args:[term]}
"""
import re


def var(n):
    return {"k": "var", "n": n}


def wild():
    return {"k": "wild"}


def app(f, *args):
    return {"k": "app", "f": f, "args": list(args)}


def snake(name):
    """eqlog converts names with convert_case(Snake); our generated names are already in the
    target case except UpperCamel type/ctor names."""
    s = re.sub(r"(?<=[a-z0-9])([A-Z])", r"_\1", name)
    return s.lower()


def camel(name):
    return "".join(p[:1].upper() + p[1:] for p in name.split("_"))


class Sig:
    def __init__(self, th):
        self.th = th
        self.types = list(th.get("types", []))
        self.enums = {e["name"]: e for e in th.get("enums", [])}
        self.all_types = self.types + [e["name"] for e in th.get("enums", [])]
        self.preds = {p["name"]: list(p["args"]) for p in th.get("preds", [])}
        self.funcs = {}
        self.ctor_of = {}
        for f in th.get("funcs", []):
            self.funcs[f["name"]] = (list(f["args"]), f["res"])
        for e in th.get("enums", []):
            for c in e["ctors"]:
                self.funcs[c["name"]] = (list(c["args"]), e["name"])
                self.ctor_of[c["name"]] = e["name"]
        # relation name -> column types (functions: args + result)
        self.rels = {}
        for p, a in self.preds.items():
            self.rels[p] = list(a)
        for f, (a, r) in self.funcs.items():
            self.rels[f] = list(a) + [r]

    def is_func(self, r):
        return r in self.funcs

    def definable(self, f):
        """define_<f> exists for functions whose result is not an enum type, and for ctors."""
        a, r = self.funcs[f]
        return r not in self.enums or f in self.ctor_of


def term_str(t):
    if t["k"] == "var":
        return t["n"]
    if t["k"] == "wild":
        return "_"
    return "%s(%s)" % (t["f"], ", ".join(term_str(a) for a in t["args"]))


def atom_str(a):
    k = a["k"]
    if k == "pred":
        return "%s(%s)" % (a["p"], ", ".join(term_str(t) for t in a["args"]))
    if k == "eq":
        return "%s = %s" % (term_str(a["l"]), term_str(a["r"]))
    if k == "def":
        if a.get("v"):
            return "%s := %s!" % (a["v"], term_str(a["t"]))
        return "%s!" % term_str(a["t"])
    if k == "type":
        return "%s: %s" % (a["v"], a["ty"])
    raise ValueError(k)


def stmts_str(stmts, ind):
    out = []
    pad = "    " * ind
    for s in stmts:
        if s["k"] in ("if", "then"):
            out.append("%s%s %s;" % (pad, s["k"], atom_str(s["atom"])))
        elif s["k"] == "branch":
            parts = []
            for b in s["blocks"]:
                parts.append("{\n%s\n%s}" % ("\n".join(stmts_str(b, ind + 1)), pad) if b else "{\n%s}" % pad)
            out.append("%sbranch %s" % (pad, " along ".join(parts)))
        elif s["k"] == "match":
            out.append("%smatch %s {" % (pad, term_str(s["term"])))
            for c in s["cases"]:
                pat = "%s(%s)" % (c["ctor"], ", ".join(c["vars"]))
                if c["body"]:
                    out.append("%s    %s => {\n%s\n%s    }" % (pad, pat, "\n".join(stmts_str(c["body"], ind + 2)), pad))
                else:
                    out.append("%s    %s => {}" % (pad, pat))
            out.append("%s}" % pad)
        else:
            raise ValueError(s["k"])
    return out


def emit(th):
    out = []
    for t in th.get("types", []):
        out.append("type %s;" % t)
    for e in th.get("enums", []):
        out.append("enum %s {" % e["name"])
        out.append(",\n".join("    %s(%s)" % (c["name"], ", ".join(c["args"])) for c in e["ctors"]))
        out.append("}")
    for p in th.get("preds", []):
        out.append("pred %s(%s);" % (p["name"], ", ".join(p["args"])))
    for f in th.get("funcs", []):
        out.append("func %s(%s) -> %s;" % (f["name"], ", ".join(f["args"]), f["res"]))
    for r in th.get("rules", []):
        out.append("rule %s {" % (r.get("name") or ""))
        out.extend(stmts_str(r["body"], 1))
        out.append("}")
    return "\n".join(out) + "\n"


# ---------------------------------------------------------------------------------------------
# small traversal helpers


def term_vars(t, acc):
    if t["k"] == "var":
        acc.append(t["n"])
    elif t["k"] == "app":
        for a in t["args"]:
            term_vars(a, acc)


def atom_terms(a):
    k = a["k"]
    if k == "pred":
        return list(a["args"])
    if k == "eq":
        return [a["l"], a["r"]]
    if k == "def":
        return [a["t"]]
    return []


def atom_vars(a, acc):
    for t in atom_terms(a):
        term_vars(t, acc)
    if a["k"] == "type":
        acc.append(a["v"])
    if a["k"] == "def" and a.get("v"):
        acc.append(a["v"])


def stmts_vars(stmts, acc):
    for s in stmts:
        if s["k"] in ("if", "then"):
            atom_vars(s["atom"], acc)
        elif s["k"] == "branch":
            for b in s["blocks"]:
                stmts_vars(b, acc)
        elif s["k"] == "match":
            term_vars(s["term"], acc)
            for c in s["cases"]:
                acc.extend(v for v in c["vars"] if v != "_")
                stmts_vars(c["body"], acc)


def rule_features(rule):
    """Coarse rule-shape features for coverage histograms."""
    feats = set()

    def term_f(t, depth):
        if t["k"] == "app":
            feats.add("nested_term" if depth > 0 else "app_term")
            if not t["args"]:
                feats.add("constant")
            for a in t["args"]:
                term_f(a, depth + 1)
        elif t["k"] == "wild":
            feats.add("wildcard")

    def walk(stmts, seen_then):
        for s in stmts:
            if s["k"] == "if":
                if seen_then[0]:
                    feats.add("if_after_then")
                a = s["atom"]
                if a["k"] == "eq":
                    feats.add("premise_equality")
                if a["k"] == "type":
                    feats.add("type_atom")
                if a["k"] == "def":
                    feats.add("premise_defined")
                if a["k"] == "pred":
                    vs = [t["n"] for t in a["args"] if t["k"] == "var"]
                    if len(vs) != len(set(vs)):
                        feats.add("diagonal_atom")
                    if not a["args"]:
                        feats.add("nullary_pred")
                for t in atom_terms(a):
                    term_f(t, 0)
                    if t["k"] == "app":
                        vs = [x["n"] for x in t["args"] if x["k"] == "var"]
                        if len(vs) != len(set(vs)):
                            feats.add("diagonal_atom")
            elif s["k"] == "then":
                seen_then[0] = True
                a = s["atom"]
                feats.add("then_" + a["k"])
                if a["k"] == "def":
                    feats.add("non_surjective")
            elif s["k"] == "branch":
                feats.add("branch")
                for b in s["blocks"]:
                    walk(b, [seen_then[0]])
            elif s["k"] == "match":
                feats.add("match")
                for c in s["cases"]:
                    walk(c["body"], [seen_then[0]])

    walk(rule["body"], [False])
    if not any(s["k"] == "if" for s in rule["body"][:1]):
        if rule["body"] and rule["body"][0]["k"] == "then":
            feats.add("empty_premise")
    return feats
