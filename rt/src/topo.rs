// C18 monitor: morphism_toposort on directed multigraphs (with morphisms lacking dom or cod),
// submitted under several new/old splits of the three input tables.
use crate::common::*;
use eqlog_runtime::{morphism_toposort, PrefixTree1, PrefixTree2};
use std::collections::{BTreeMap, BTreeSet};

#[derive(Clone, Debug)]
pub struct Graph {
    pub objects: Vec<u32>,
    /// (morphism id, dom, cod)
    pub mors: Vec<(u32, Option<u32>, Option<u32>)>,
}

/// Independent cycle decision: DFS over objects along morphisms with both ends defined.
fn has_cycle(g: &Graph) -> bool {
    let mut adj: BTreeMap<u32, Vec<u32>> = BTreeMap::new();
    for (_, d, c) in &g.mors {
        if let (Some(d), Some(c)) = (d, c) {
            adj.entry(*d).or_default().push(*c);
        }
    }
    // colors: 0 white, 1 grey, 2 black
    let mut color: BTreeMap<u32, u8> = g.objects.iter().map(|o| (*o, 0)).collect();
    fn dfs(o: u32, adj: &BTreeMap<u32, Vec<u32>>, color: &mut BTreeMap<u32, u8>) -> bool {
        color.insert(o, 1);
        if let Some(ns) = adj.get(&o) {
            for n in ns {
                match color.get(n).copied().unwrap_or(0) {
                    1 => return true,
                    0 => {
                        if dfs(*n, adj, color) {
                            return true;
                        }
                    }
                    _ => {}
                }
            }
        }
        color.insert(o, 2);
        false
    }
    for o in g.objects.clone() {
        if color[&o] == 0 && dfs(o, &adj, &mut color) {
            return true;
        }
    }
    false
}

pub struct Outcome {
    pub ok: bool,
    pub triples: BTreeSet<(u32, u32, u32)>,
    pub seq: Vec<u32>,
}

/// Submit the graph under one split; `split` bit i decides new/old for the i-th table entry
/// (dom entries, then cod entries, then objects).
fn submit(g: &Graph, split: &[bool], swap_obj_args: bool) -> Result<Outcome, String> {
    let mut dom_new = PrefixTree2::new();
    let mut dom_old = PrefixTree2::new();
    let mut cod_new = PrefixTree2::new();
    let mut cod_old = PrefixTree2::new();
    let mut obj_new = PrefixTree1::new();
    let mut obj_old = PrefixTree1::new();
    let mut i = 0;
    for (m, d, _) in &g.mors {
        if let Some(d) = d {
            if split[i] {
                dom_new.insert([*d, *m]);
            } else {
                dom_old.insert([*d, *m]);
            }
            i += 1;
        }
    }
    for (m, _, c) in &g.mors {
        if let Some(c) = c {
            if split[i] {
                cod_new.insert([*m, *c]);
            } else {
                cod_old.insert([*m, *c]);
            }
            i += 1;
        }
    }
    for o in &g.objects {
        if split[i] {
            obj_new.insert([*o]);
        } else {
            obj_old.insert([*o]);
        }
        i += 1;
    }
    let res = if swap_obj_args {
        morphism_toposort(&dom_new, &dom_old, &cod_new, &cod_old, &obj_old, &obj_new)
    } else {
        morphism_toposort(&dom_new, &dom_old, &cod_new, &cod_old, &obj_new, &obj_old)
    };
    let cyclic = has_cycle(g);
    match res {
        Err(_) => {
            if !cyclic {
                return Err("Err(CycleDetected) on an acyclic graph".to_string());
            }
            Ok(Outcome { ok: false, triples: BTreeSet::new(), seq: vec![] })
        }
        Ok(v) => {
            if cyclic {
                return Err(format!(
                    "Ok({:?}) although the morphisms with both ends defined contain a directed cycle",
                    v.iter().map(|m| (m.morph, m.dom, m.cod)).collect::<Vec<_>>()
                ));
            }
            let want: BTreeSet<(u32, u32, u32)> = g
                .mors
                .iter()
                .filter_map(|(m, d, c)| match (d, c) {
                    (Some(d), Some(c)) => Some((*m, *d, *c)),
                    _ => None,
                })
                .collect();
            let mut got = BTreeSet::new();
            for x in &v {
                if !got.insert((x.morph, x.dom, x.cod)) {
                    return Err(format!("morphism {} listed twice", x.morph));
                }
            }
            if got != want {
                return Err(format!(
                    "result set {:?} differs from the morphisms with defined dom and cod {:?}",
                    got, want
                ));
            }
            // order: every morphism into B precedes every morphism out of B
            let mut first_out: BTreeMap<u32, usize> = BTreeMap::new();
            for (i, x) in v.iter().enumerate() {
                first_out.entry(x.dom).or_insert(i);
            }
            for (i, x) in v.iter().enumerate() {
                if let Some(j) = first_out.get(&x.cod) {
                    if *j < i {
                        return Err(format!(
                            "morphism {} out of object {} is listed (position {}) before morphism {} into it (position {})",
                            v[*j].morph, x.cod, j, x.morph, i
                        ));
                    }
                }
            }
            Ok(Outcome { ok: true, triples: got, seq: v.iter().map(|m| m.morph).collect() })
        }
    }
}

pub fn check_graph(
    g: &Graph,
    c: &mut dyn Chooser,
    nsplits: usize,
    stats: &mut Stats,
) -> Result<(), String> {
    let ndom = g.mors.iter().filter(|m| m.1.is_some()).count();
    let ncod = g.mors.iter().filter(|m| m.2.is_some()).count();
    let nbits = ndom + ncod + g.objects.len();
    let mut outcomes: Vec<Outcome> = vec![];
    for s in 0..nsplits {
        let split: Vec<bool> = match s {
            0 => vec![true; nbits],
            1 => vec![false; nbits],
            _ => (0..nbits).map(|_| c.choose(2) == 0).collect(),
        };
        let swap = s % 2 == 1;
        stats.comparisons += 1;
        let o = submit(g, &split, swap).map_err(|e| format!("split {:?}: {}", split, e))?;
        outcomes.push(o);
    }
    for o in &outcomes[1..] {
        if o.ok != outcomes[0].ok || o.triples != outcomes[0].triples {
            return Err("verdict or result set depends on the new/old split".to_string());
        }
        if o.seq != outcomes[0].seq {
            stats.bump("split_pairs_with_different_valid_orders", 1);
        }
    }
    if outcomes[0].ok {
        stats.bump("acyclic", 1);
        if !outcomes[0].triples.is_empty() {
            stats.bump("acyclic_nonempty", 1);
        }
    } else {
        stats.bump("cyclic", 1);
    }
    let mut h: u64 = 0xcbf29ce484222325;
    for o in &g.objects {
        fnv(&mut h, *o as u64);
    }
    for (m, d, c) in &g.mors {
        fnv(&mut h, *m as u64 + 1000);
        fnv(&mut h, d.map_or(77, |x| x as u64));
        fnv(&mut h, c.map_or(78, |x| x as u64));
    }
    stats.state(h);
    Ok(())
}


/// C20 (runtime part): calling morphism_toposort again on identical tables must return the
/// identical sequence (no dependence on hash seeds or addresses). Judged only on repeat calls with
/// the *same* split, where any difference is non-determinism.
pub fn check_repeat(g: &Graph, c: &mut dyn Chooser, nsplits: usize, stats: &mut Stats) -> Result<(), String> {
    let ndom = g.mors.iter().filter(|m| m.1.is_some()).count();
    let ncod = g.mors.iter().filter(|m| m.2.is_some()).count();
    let nbits = ndom + ncod + g.objects.len();
    for s in 0..nsplits {
        let split: Vec<bool> = match s {
            0 => vec![true; nbits],
            1 => vec![false; nbits],
            _ => (0..nbits).map(|_| c.choose(2) == 0).collect(),
        };
        let mut runs: Vec<Option<Vec<(u32, u32, u32)>>> = vec![];
        for _ in 0..3 {
            let mut dom_new = PrefixTree2::new();
            let mut dom_old = PrefixTree2::new();
            let mut cod_new = PrefixTree2::new();
            let mut cod_old = PrefixTree2::new();
            let mut obj_new = PrefixTree1::new();
            let mut obj_old = PrefixTree1::new();
            let mut i = 0;
            for (m, d, _) in &g.mors {
                if let Some(d) = d {
                    if split[i] { dom_new.insert([*d, *m]); } else { dom_old.insert([*d, *m]); }
                    i += 1;
                }
            }
            for (m, _, cd) in &g.mors {
                if let Some(cd) = cd {
                    if split[i] { cod_new.insert([*m, *cd]); } else { cod_old.insert([*m, *cd]); }
                    i += 1;
                }
            }
            for o in &g.objects {
                if split[i] { obj_new.insert([*o]); } else { obj_old.insert([*o]); }
                i += 1;
            }
            let r = morphism_toposort(&dom_new, &dom_old, &cod_new, &cod_old, &obj_new, &obj_old);
            runs.push(r.ok().map(|v| v.iter().map(|m| (m.morph, m.dom, m.cod)).collect()));
            stats.comparisons += 1;
        }
        if runs[1] != runs[0] || runs[2] != runs[0] {
            return Err(format!(
                "split {:?}: repeated calls of morphism_toposort on identical tables returned different results: {:?} vs {:?} vs {:?}",
                split, runs[0], runs[1], runs[2]
            ));
        }
        if let Some(v) = &runs[0] {
            if v.len() >= 2 {
                stats.bump("repeat_checked_sequences_len_ge_2", 1);
            }
            let mut h: u64 = 0xcbf29ce484222325;
            for t in v { fnv(&mut h, t.0 as u64); }
            stats.state(h);
        }
    }
    Ok(())
}

pub fn random_graph(c: &mut dyn Chooser, max_obj: usize, max_mor: usize, acyclic_bias: bool) -> Graph {
    let nobj = c.choose(max_obj + 1);
    // object ids and morphism ids are drawn from separate, non-contiguous ranges
    let objects: Vec<u32> = (0..nobj as u32).map(|i| i * 2 + 1).collect();
    let nmor = if nobj == 0 { c.choose(2) } else { c.choose(max_mor + 1) };
    let mut mors = vec![];
    for j in 0..nmor as u32 {
        let pick = |c: &mut dyn Chooser| -> Option<u32> {
            if nobj == 0 || c.choose(6) == 0 {
                None
            } else {
                Some(objects[c.choose(nobj)])
            }
        };
        let mut d = pick(c);
        let mut cd = pick(c);
        if acyclic_bias {
            if let (Some(a), Some(b)) = (d, cd) {
                if a > b {
                    d = Some(b);
                    cd = Some(a);
                } else if a == b {
                    cd = None;
                }
            }
        }
        mors.push((100 + j * 3, d, cd));
    }
    Graph { objects, mors }
}

/// All multigraphs with exactly `nobj` objects and `nmor` morphisms (each end: undefined or one
/// of the objects), enumerated by the chooser.
pub fn enumerated_graph(c: &mut dyn Chooser, nobj: usize, nmor: usize) -> Graph {
    let objects: Vec<u32> = (0..nobj as u32).collect();
    let mut mors = vec![];
    for j in 0..nmor as u32 {
        let d = c.choose(nobj + 1);
        let cd = c.choose(nobj + 1);
        mors.push((
            10 + j,
            if d == nobj { None } else { Some(d as u32) },
            if cd == nobj { None } else { Some(cd as u32) },
        ));
    }
    Graph { objects, mors }
}
