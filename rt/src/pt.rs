// C08 monitor: PrefixTree0..9 against BTreeSet<Vec<u32>> on a family of live clones.
// Online: after every operation every member of the family is compared with its shadow.
use crate::common::*;
use eqlog_runtime::*;
use std::collections::BTreeSet;

pub type Shadow = BTreeSet<Vec<u32>>;

pub trait PT: Clone + Sized {
    const N: usize;
    type Sub: PT;
    fn new() -> Self;
    fn insert(&mut self, t: &[u32]) -> bool;
    fn remove(&mut self, t: &[u32]) -> bool;
    fn contains(&self, t: &[u32]) -> bool;
    fn is_empty(&self) -> bool;
    fn clear(&mut self);
    fn tuples(&self) -> Vec<Vec<u32>>;
    fn union(&self, o: &Self) -> Self;
    fn difference(&self, o: &Self) -> Self;
    fn mapped(&self, maps: &[Option<PrefixTree2>]) -> Self;
    fn get_sub(&self, _k: u32) -> Option<Self::Sub> {
        unreachable!()
    }
    fn restrictions(&self) -> Vec<(u32, Self::Sub)> {
        unreachable!()
    }
    fn insert_restriction(&mut self, _k: u32, _s: Self::Sub) {
        unreachable!()
    }
    fn remove_restriction(&mut self, _k: u32, _s: &Self::Sub) {
        unreachable!()
    }
    fn with_sub_mut(&mut self, _k: u32, _f: &mut dyn FnMut(&mut Self::Sub)) -> bool {
        unreachable!()
    }
    fn for_each_sub_mut(&mut self, _f: &mut dyn FnMut(u32, &mut Self::Sub)) {
        unreachable!()
    }
}

impl PT for PrefixTree0 {
    const N: usize = 0;
    type Sub = PrefixTree0;
    fn new() -> Self {
        PrefixTree0::new()
    }
    fn insert(&mut self, _t: &[u32]) -> bool {
        PrefixTree0::insert(self, [])
    }
    fn remove(&mut self, _t: &[u32]) -> bool {
        PrefixTree0::remove(self, [])
    }
    fn contains(&self, _t: &[u32]) -> bool {
        PrefixTree0::contains(self, [])
    }
    fn is_empty(&self) -> bool {
        PrefixTree0::is_empty(self)
    }
    fn clear(&mut self) {
        PrefixTree0::clear(self)
    }
    fn tuples(&self) -> Vec<Vec<u32>> {
        self.iter().map(|t| t.to_vec()).collect()
    }
    fn union(&self, o: &Self) -> Self {
        PrefixTree0::union(self, o)
    }
    fn difference(&self, o: &Self) -> Self {
        PrefixTree0::difference(self, o)
    }
    fn mapped(&self, _maps: &[Option<PrefixTree2>]) -> Self {
        PrefixTree0::mapped(self)
    }
}

impl PT for PrefixTree1 {
    const N: usize = 1;
    type Sub = PrefixTree0;
    fn new() -> Self {
        PrefixTree1::new()
    }
    fn insert(&mut self, t: &[u32]) -> bool {
        PrefixTree1::insert(self, [t[0]])
    }
    fn remove(&mut self, t: &[u32]) -> bool {
        PrefixTree1::remove(self, [t[0]])
    }
    fn contains(&self, t: &[u32]) -> bool {
        PrefixTree1::contains(self, [t[0]])
    }
    fn is_empty(&self) -> bool {
        PrefixTree1::is_empty(self)
    }
    fn clear(&mut self) {
        PrefixTree1::clear(self)
    }
    fn tuples(&self) -> Vec<Vec<u32>> {
        self.iter().map(|t| t.to_vec()).collect()
    }
    fn union(&self, o: &Self) -> Self {
        PrefixTree1::union(self, o)
    }
    fn difference(&self, o: &Self) -> Self {
        PrefixTree1::difference(self, o)
    }
    fn mapped(&self, maps: &[Option<PrefixTree2>]) -> Self {
        PrefixTree1::mapped(self, maps[0].clone())
    }
    fn get_sub(&self, k: u32) -> Option<PrefixTree0> {
        self.get(k).cloned()
    }
    fn restrictions(&self) -> Vec<(u32, PrefixTree0)> {
        self.iter_restrictions().collect()
    }
    fn insert_restriction(&mut self, k: u32, s: PrefixTree0) {
        PrefixTree1::insert_restriction(self, k, s)
    }
    fn remove_restriction(&mut self, k: u32, s: &PrefixTree0) {
        PrefixTree1::remove_restriction(self, k, s)
    }
}

macro_rules! impl_pt {
    ($T:ident, $S:ident, $n:expr, [$($i:expr),*]) => {
        impl PT for $T {
            const N: usize = $n;
            type Sub = $S;
            fn new() -> Self { $T::new() }
            fn insert(&mut self, t: &[u32]) -> bool { $T::insert(self, [$(t[$i]),*]) }
            fn remove(&mut self, t: &[u32]) -> bool { $T::remove(self, [$(t[$i]),*]) }
            fn contains(&self, t: &[u32]) -> bool { $T::contains(self, [$(t[$i]),*]) }
            fn is_empty(&self) -> bool { $T::is_empty(self) }
            fn clear(&mut self) { $T::clear(self) }
            fn tuples(&self) -> Vec<Vec<u32>> { self.iter().map(|t| t.to_vec()).collect() }
            fn union(&self, o: &Self) -> Self { $T::union(self, o) }
            fn difference(&self, o: &Self) -> Self { $T::difference(self, o) }
            fn mapped(&self, maps: &[Option<PrefixTree2>]) -> Self {
                $T::mapped(self, $(maps[$i].clone()),*)
            }
            fn get_sub(&self, k: u32) -> Option<$S> { self.get(k).cloned() }
            fn restrictions(&self) -> Vec<(u32, $S)> {
                self.iter_restrictions().map(|(k, s)| (k, s.clone())).collect()
            }
            fn insert_restriction(&mut self, k: u32, s: $S) { $T::insert_restriction(self, k, s) }
            fn remove_restriction(&mut self, k: u32, s: &$S) { $T::remove_restriction(self, k, s) }
            fn with_sub_mut(&mut self, k: u32, f: &mut dyn FnMut(&mut $S)) -> bool {
                match self.get_mut(k) {
                    Some(s) => { f(s); true }
                    None => false,
                }
            }
            fn for_each_sub_mut(&mut self, f: &mut dyn FnMut(u32, &mut $S)) {
                for (k, s) in self.iter_restrictions_mut() {
                    f(k, s);
                }
            }
        }
    };
}

impl_pt!(PrefixTree2, PrefixTree1, 2, [0, 1]);
impl_pt!(PrefixTree3, PrefixTree2, 3, [0, 1, 2]);
impl_pt!(PrefixTree4, PrefixTree3, 4, [0, 1, 2, 3]);
impl_pt!(PrefixTree5, PrefixTree4, 5, [0, 1, 2, 3, 4]);
impl_pt!(PrefixTree6, PrefixTree5, 6, [0, 1, 2, 3, 4, 5]);
impl_pt!(PrefixTree7, PrefixTree6, 7, [0, 1, 2, 3, 4, 5, 6]);
impl_pt!(PrefixTree8, PrefixTree7, 8, [0, 1, 2, 3, 4, 5, 6, 7]);
impl_pt!(PrefixTree9, PrefixTree8, 9, [0, 1, 2, 3, 4, 5, 6, 7, 8]);

fn suffixes(s: &Shadow, k: u32) -> Shadow {
    s.iter()
        .filter(|t| t[0] == k)
        .map(|t| t[1..].to_vec())
        .collect()
}

/// Full structural comparison of a tree with its expected tuple set (recursing into
/// restrictions). `probe_keys` is the range of first-column values to probe with `get`.
pub fn check_tree<T: PT>(t: &T, exp: &Shadow, probe_keys: u32, cmp: &mut u64) -> Result<(), String> {
    *cmp += 1;
    let got = t.tuples();
    let want: Vec<Vec<u32>> = exp.iter().cloned().collect();
    if got != want {
        return Err(format!(
            "arity {}: iteration differs from reference set: got {:?}, want {:?}",
            T::N,
            got,
            want
        ));
    }
    if t.is_empty() != exp.is_empty() {
        return Err(format!(
            "arity {}: is_empty()={} but reference set has {} tuples",
            T::N,
            t.is_empty(),
            exp.len()
        ));
    }
    if T::N == 0 {
        return Ok(());
    }
    let keys: Vec<u32> = {
        let mut v: Vec<u32> = exp.iter().map(|t| t[0]).collect();
        v.dedup();
        v
    };
    let restr = t.restrictions();
    let rkeys: Vec<u32> = restr.iter().map(|(k, _)| *k).collect();
    if rkeys != keys {
        return Err(format!(
            "arity {}: iter_restrictions keys {:?} but reference first columns {:?} (a key with no tuple below it is an empty sub-tree)",
            T::N,
            rkeys,
            keys
        ));
    }
    for (k, sub) in restr.iter() {
        let sx = suffixes(exp, *k);
        check_tree::<T::Sub>(sub, &sx, probe_keys, cmp)
            .map_err(|e| format!("under prefix {}: {}", k, e))?;
    }
    for k in 0..probe_keys {
        let sx = suffixes(exp, k);
        match t.get_sub(k) {
            None => {
                if !sx.is_empty() {
                    return Err(format!(
                        "arity {}: get({}) = None but {} tuples have that prefix",
                        T::N,
                        k,
                        sx.len()
                    ));
                }
            }
            Some(sub) => {
                if sx.is_empty() {
                    return Err(format!(
                        "arity {}: get({}) = Some(sub-tree) but no tuple has that prefix (sub-tree tuples: {:?})",
                        T::N,
                        k,
                        sub.tuples()
                    ));
                }
                let got = sub.tuples();
                let want: Vec<Vec<u32>> = sx.iter().cloned().collect();
                if got != want {
                    return Err(format!(
                        "arity {}: get({}) yields {:?}, want {:?}",
                        T::N,
                        k,
                        got,
                        want
                    ));
                }
            }
        }
    }
    Ok(())
}

pub struct Params {
    pub universe: u32,
    pub family: usize,
    pub ops_per_episode: usize,
    pub max_size: usize,
}

fn rand_tuple(c: &mut dyn Chooser, n: usize, u: u32) -> Vec<u32> {
    (0..n).map(|_| c.choose(u as usize) as u32).collect()
}

fn build<T: PT>(s: &Shadow) -> T {
    let mut t = T::new();
    for x in s {
        t.insert(x);
    }
    t
}

fn rand_map(c: &mut dyn Chooser, u: u32) -> (Option<PrefixTree2>, Vec<(u32, u32)>) {
    // None = identity; otherwise a random binary relation used as a partial map.
    if c.exhaustive() {
        // small fixed menu: identity, a total non-injective map, a partial map
        let pairs: Vec<(u32, u32)> = match c.choose(3) {
            0 => return (None, vec![]),
            1 => vec![(0, 1), (1, 1)],
            _ => vec![(0, 0), (0, 1)],
        };
        let mut m = PrefixTree2::new();
        for (a, b) in &pairs {
            m.insert([*a, *b]);
        }
        return (Some(m), pairs);
    }
    if c.choose(3) == 0 {
        return (None, vec![]);
    }
    let mut m = PrefixTree2::new();
    let mut pairs = vec![];
    let npairs = c.choose(u as usize + 2);
    for _ in 0..npairs {
        let a = c.choose(u as usize) as u32;
        let b = c.choose(u as usize) as u32;
        m.insert([a, b]);
        pairs.push((a, b));
    }
    (Some(m), pairs)
}

fn ref_mapped(s: &Shadow, maps: &[(Option<PrefixTree2>, Vec<(u32, u32)>)]) -> Shadow {
    let mut out = Shadow::new();
    'outer: for t in s {
        let mut r = Vec::with_capacity(t.len());
        for (i, x) in t.iter().enumerate() {
            match &maps[i].0 {
                None => r.push(*x),
                Some(_) => {
                    let img = maps[i].1.iter().filter(|(a, _)| a == x).map(|(_, b)| *b).min();
                    match img {
                        Some(b) => r.push(b),
                        None => continue 'outer,
                    }
                }
            }
        }
        out.insert(r);
    }
    out
}

pub fn episode<T: PT>(
    c: &mut dyn Chooser,
    p: &Params,
    stats: &mut Stats,
    log: &mut Vec<String>,
) -> Result<(), String> {
    let n = T::N;
    let u = p.universe;
    let mut fam: Vec<(T, Shadow)> = vec![(T::new(), Shadow::new())];
    let kinds: &[&'static str] = if c.exhaustive() && n >= 2 {
        &[
            "insert", "remove", "clone", "union", "difference", "clear", "mapped",
            "insert_restriction", "remove_restriction", "get_mut_insert", "iter_mut_insert",
            "get_mut_remove_restriction",
        ]
    } else if n == 0 {
        &["insert", "remove", "contains", "clone", "union", "difference", "clear", "mapped"]
    } else if n == 1 {
        &[
            "insert", "remove", "contains", "clone", "union", "difference", "clear", "mapped",
            "insert_restriction", "remove_restriction",
        ]
    } else {
        &[
            "insert", "remove", "contains", "clone", "union", "difference", "clear", "mapped",
            "insert_restriction", "remove_restriction", "get_mut_insert", "iter_mut_insert",
            "get_mut_remove_restriction", "insert", "insert", "remove", "bulk_insert",
        ]
    };
    for _ in 0..p.ops_per_episode {
        let kind = kinds[c.choose(kinds.len())];
        let m = c.choose(fam.len());
        stats.kind(kind);
        match kind {
            "insert" => {
                let t = rand_tuple(c, n, u);
                log.push(format!("m{}.insert({:?})", m, t));
                let r = fam[m].0.insert(&t);
                let e = fam[m].1.insert(t.clone());
                if r != e {
                    return Err(format!("insert({:?}) returned {}, reference {}", t, r, e));
                }
            }
            "remove" => {
                let t = if !c.exhaustive() && !fam[m].1.is_empty() && c.choose(3) != 0 {
                    let k = c.choose(fam[m].1.len());
                    fam[m].1.iter().nth(k).unwrap().clone()
                } else {
                    rand_tuple(c, n, u)
                };
                log.push(format!("m{}.remove({:?})", m, t));
                let r = fam[m].0.remove(&t);
                let e = fam[m].1.remove(&t);
                if r != e {
                    return Err(format!("remove({:?}) returned {}, reference {}", t, r, e));
                }
            }
            "bulk_insert" => {
                let cnt = 2 + c.choose(10);
                log.push(format!("m{}.bulk_insert({})", m, cnt));
                for _ in 0..cnt {
                    let t = rand_tuple(c, n, u);
                    let r = fam[m].0.insert(&t);
                    let e = fam[m].1.insert(t.clone());
                    if r != e {
                        return Err(format!("insert({:?}) returned {}, reference {}", t, r, e));
                    }
                }
            }
            "contains" => {
                let t = rand_tuple(c, n, u);
                log.push(format!("m{}.contains({:?})", m, t));
                let r = fam[m].0.contains(&t);
                let e = fam[m].1.contains(&t);
                if r != e {
                    return Err(format!("contains({:?}) returned {}, reference {}", t, r, e));
                }
            }
            "clone" => {
                let cl = (fam[m].0.clone(), fam[m].1.clone());
                let d = if fam.len() < p.family {
                    fam.len()
                } else if c.exhaustive() {
                    (m + 1) % fam.len()
                } else {
                    c.choose(fam.len())
                };
                log.push(format!("m{} = m{}.clone()", d, m));
                if d < fam.len() {
                    fam[d] = cl;
                } else {
                    fam.push(cl);
                }
            }
            "union" | "difference" => {
                let o = c.choose(fam.len());
                let d = if c.exhaustive() { fam.len().min(p.family - 1) } else { c.choose(fam.len().min(p.family - 1) + 1).min(p.family - 1) };
                log.push(format!("m{} = m{}.{}(m{})", d, m, kind, o));
                let (t, s) = if kind == "union" {
                    (
                        fam[m].0.union(&fam[o].0),
                        fam[m].1.union(&fam[o].1).cloned().collect::<Shadow>(),
                    )
                } else {
                    (
                        fam[m].0.difference(&fam[o].0),
                        fam[m].1.difference(&fam[o].1).cloned().collect::<Shadow>(),
                    )
                };
                if d < fam.len() {
                    fam[d] = (t, s);
                } else {
                    fam.push((t, s));
                }
            }
            "clear" => {
                log.push(format!("m{}.clear()", m));
                fam[m].0.clear();
                fam[m].1.clear();
            }
            "mapped" => {
                let maps: Vec<_> = (0..n).map(|_| rand_map(c, u)).collect();
                let d = if c.exhaustive() { fam.len().min(p.family - 1) } else { c.choose(fam.len().min(p.family - 1) + 1).min(p.family - 1) };
                log.push(format!(
                    "m{} = m{}.mapped({:?})",
                    d,
                    m,
                    maps.iter()
                        .map(|(o, p)| o.as_ref().map(|_| p.clone()))
                        .collect::<Vec<_>>()
                ));
                let args: Vec<Option<PrefixTree2>> = maps.iter().map(|(o, _)| o.clone()).collect();
                let t = fam[m].0.mapped(&args);
                let s = ref_mapped(&fam[m].1, &maps);
                if d < fam.len() {
                    fam[d] = (t, s);
                } else {
                    fam.push((t, s));
                }
            }
            "insert_restriction" | "remove_restriction" => {
                let k = c.choose(u as usize) as u32;
                // the sub-relation: freshly built, shared with another member, or empty
                let (sub, ss, how): (T::Sub, Shadow, String) = match c.choose(if c.exhaustive() { 3 } else { 4 }) {
                    0 => (T::Sub::new(), Shadow::new(), "empty".to_string()),
                    1 => {
                        let o = c.choose(fam.len());
                        let k2 = c.choose(u as usize) as u32;
                        match fam[o].0.get_sub(k2) {
                            Some(s) => (s, suffixes(&fam[o].1, k2), format!("m{}.get({})", o, k2)),
                            None => (T::Sub::new(), Shadow::new(), "empty".to_string()),
                        }
                    }
                    _ => {
                        let cnt = if c.exhaustive() { 1 } else { 1 + c.choose(3) };
                        let mut ss = Shadow::new();
                        for _ in 0..cnt {
                            ss.insert(rand_tuple(c, n - 1, u));
                        }
                        (build::<T::Sub>(&ss), ss.clone(), format!("{:?}", ss))
                    }
                };
                log.push(format!("m{}.{}({}, {})", m, kind, k, how));
                if kind == "insert_restriction" {
                    fam[m].0.insert_restriction(k, sub);
                    for s in ss {
                        let mut t = vec![k];
                        t.extend(s);
                        fam[m].1.insert(t);
                    }
                } else {
                    fam[m].0.remove_restriction(k, &sub);
                    for s in ss {
                        let mut t = vec![k];
                        t.extend(s);
                        fam[m].1.remove(&t);
                    }
                }
            }
            "get_mut_insert" => {
                let k = c.choose(u as usize) as u32;
                let sfx = rand_tuple(c, n - 1, u);
                log.push(format!("m{}.get_mut({}).map(|s| s.insert({:?}))", m, k, sfx));
                let present = fam[m].1.iter().any(|t| t[0] == k);
                let mut ret = None;
                let found = fam[m].0.with_sub_mut(k, &mut |s| {
                    ret = Some(s.insert(&sfx));
                });
                if found != present {
                    return Err(format!(
                        "get_mut({}) is_some()={} but reference has prefix: {}",
                        k, found, present
                    ));
                }
                if found {
                    let mut t = vec![k];
                    t.extend(sfx.clone());
                    let e = fam[m].1.insert(t);
                    if ret != Some(e) {
                        return Err(format!(
                            "insert through get_mut returned {:?}, reference {}",
                            ret, e
                        ));
                    }
                }
            }
            "iter_mut_insert" => {
                let sfx = rand_tuple(c, n - 1, u);
                let parity = c.choose(2) as u32;
                log.push(format!(
                    "for (k,s) in m{}.iter_restrictions_mut() if k%2=={} s.insert({:?})",
                    m, parity, sfx
                ));
                let mut seen = vec![];
                fam[m].0.for_each_sub_mut(&mut |k, s| {
                    seen.push(k);
                    if k % 2 == parity {
                        s.insert(&sfx);
                    }
                });
                let mut keys: Vec<u32> = fam[m].1.iter().map(|t| t[0]).collect();
                keys.dedup();
                if seen != keys {
                    return Err(format!(
                        "iter_restrictions_mut visited keys {:?}, reference {:?}",
                        seen, keys
                    ));
                }
                for k in keys {
                    if k % 2 == parity {
                        let mut t = vec![k];
                        t.extend(sfx.clone());
                        fam[m].1.insert(t);
                    }
                }
            }
            "get_mut_remove_restriction" => {
                // what generated code does with `_own` indices: descend with get_mut, then
                // remove a sub-relation one level down. Only performed when the reference says
                // the descended-into sub-tree stays non-empty (otherwise the caller, not the
                // container, would be responsible for the empty entry).
                let k = c.choose(u as usize) as u32;
                let k2 = c.choose(u as usize) as u32;
                let cnt = if c.exhaustive() { 1 } else { 1 + c.choose(2) };
                let mut ss = Shadow::new();
                for _ in 0..cnt {
                    ss.insert(rand_tuple(c, n - 2, u));
                }
                let remaining = fam[m]
                    .1
                    .iter()
                    .filter(|t| t[0] == k && !(t[1] == k2 && ss.contains(&t[2..].to_vec())))
                    .count();
                if remaining == 0 {
                    stats.bump("get_mut_remove_restriction_skipped", 1);
                    log.push(format!("(skipped get_mut({}).remove_restriction)", k));
                } else {
                    log.push(format!(
                        "m{}.get_mut({}).remove_restriction({}, {:?})",
                        m, k, k2, ss
                    ));
                    let sub2 = build::<<T::Sub as PT>::Sub>(&ss);
                    fam[m].0.with_sub_mut(k, &mut |s| {
                        s.remove_restriction(k2, &sub2);
                    });
                    for s in ss {
                        let mut t = vec![k, k2];
                        t.extend(s);
                        fam[m].1.remove(&t);
                    }
                }
            }
            _ => unreachable!(),
        }
        // online comparison of every live member
        let mut h: u64 = 0xcbf29ce484222325;
        for (i, (t, s)) in fam.iter().enumerate() {
            check_tree::<T>(t, s, u + 1, &mut stats.comparisons)
                .map_err(|e| format!("member m{}: {}", i, e))?;
            fnv(&mut h, 0xffff_ffff);
            for tup in s {
                for x in tup {
                    fnv(&mut h, *x as u64);
                }
                fnv(&mut h, 0xfffe);
            }
            stats.max_size = stats.max_size.max(s.len());
        }
        fnv(&mut h, n as u64);
        stats.state(h);
        // keep sets small so that collisions stay frequent
        for (t, s) in fam.iter_mut() {
            if s.len() > p.max_size {
                t.clear();
                s.clear();
            }
        }
    }
    Ok(())
}

pub fn episode_arity(
    arity: usize,
    c: &mut dyn Chooser,
    p: &Params,
    stats: &mut Stats,
    log: &mut Vec<String>,
) -> Result<(), String> {
    match arity {
        0 => episode::<PrefixTree0>(c, p, stats, log),
        1 => episode::<PrefixTree1>(c, p, stats, log),
        2 => episode::<PrefixTree2>(c, p, stats, log),
        3 => episode::<PrefixTree3>(c, p, stats, log),
        4 => episode::<PrefixTree4>(c, p, stats, log),
        5 => episode::<PrefixTree5>(c, p, stats, log),
        6 => episode::<PrefixTree6>(c, p, stats, log),
        7 => episode::<PrefixTree7>(c, p, stats, log),
        8 => episode::<PrefixTree8>(c, p, stats, log),
        9 => episode::<PrefixTree9>(c, p, stats, log),
        _ => panic!("arity out of range"),
    }
}
