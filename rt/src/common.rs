// Shared pieces of the runtime monitors: choice sources (PRNG and exhaustive odometer),
// a tiny state hasher and the episode result type.
use std::collections::BTreeSet;

pub trait Chooser {
    /// Returns a value in 0..n (n >= 1).
    fn choose(&mut self, n: usize) -> usize;
    fn exhaustive(&self) -> bool {
        false
    }
}

pub struct Rng(pub u64);

impl Rng {
    pub fn new(seed: u64) -> Self {
        let mut r = Rng(seed.wrapping_mul(0x9E3779B97F4A7C15) ^ 0xD1B54A32D192ED03);
        if r.0 == 0 {
            r.0 = 1;
        }
        for _ in 0..4 {
            r.next();
        }
        r
    }
    pub fn next(&mut self) -> u64 {
        let mut x = self.0;
        x ^= x >> 12;
        x ^= x << 25;
        x ^= x >> 27;
        self.0 = x;
        x.wrapping_mul(0x2545F4914F6CDD1D)
    }
}

impl Chooser for Rng {
    fn choose(&mut self, n: usize) -> usize {
        ((self.next() >> 11) % (n as u64)) as usize
    }
}

/// Systematic enumeration of all choice sequences (depth-first odometer).
pub struct Enumerator {
    path: Vec<(usize, usize)>,
    pos: usize,
}

impl Enumerator {
    pub fn new() -> Self {
        Enumerator {
            path: Vec::new(),
            pos: 0,
        }
    }
    pub fn start_episode(&mut self) {
        self.pos = 0;
    }
    /// Advance to the next choice sequence; false when the space is exhausted.
    pub fn advance(&mut self) -> bool {
        self.path.truncate(self.pos);
        while let Some((c, n)) = self.path.pop() {
            if c + 1 < n {
                self.path.push((c + 1, n));
                return true;
            }
        }
        false
    }
}

impl Chooser for Enumerator {
    fn choose(&mut self, n: usize) -> usize {
        if self.pos < self.path.len() {
            let (c, m) = self.path[self.pos];
            assert_eq!(m, n, "enumerator: nondeterministic choice arity");
            self.pos += 1;
            c
        } else {
            self.path.push((0, n));
            self.pos += 1;
            0
        }
    }
    fn exhaustive(&self) -> bool {
        true
    }
}

pub fn fnv(h: &mut u64, x: u64) {
    *h ^= x;
    *h = h.wrapping_mul(0x100000001b3);
}

#[derive(Default)]
pub struct Stats {
    pub episodes: u64,
    pub ops: u64,
    pub ops_by_kind: std::collections::BTreeMap<&'static str, u64>,
    pub comparisons: u64,
    pub states: BTreeSet<u64>,
    pub max_size: usize,
    pub max_height: usize,
    pub max_height_ratio_milli: u64,
    pub extra: std::collections::BTreeMap<&'static str, u64>,
    pub samples: Vec<String>,
}

impl Stats {
    pub fn kind(&mut self, k: &'static str) {
        *self.ops_by_kind.entry(k).or_insert(0) += 1;
        self.ops += 1;
    }
    pub fn bump(&mut self, k: &'static str, n: u64) {
        *self.extra.entry(k).or_insert(0) += n;
    }
    pub fn state(&mut self, h: u64) {
        if self.states.len() < 2_000_000 {
            self.states.insert(h);
        }
    }
    pub fn to_json(&self) -> String {
        let mut s = String::new();
        s.push_str(&format!(
            "{{\"episodes\":{},\"ops\":{},\"comparisons\":{},\"distinct_states\":{},\"max_size\":{},\"max_height\":{},\"max_height_ratio_milli\":{},",
            self.episodes,
            self.ops,
            self.comparisons,
            self.states.len(),
            self.max_size,
            self.max_height,
            self.max_height_ratio_milli
        ));
        s.push_str("\"ops_by_kind\":{");
        let mut first = true;
        for (k, v) in &self.ops_by_kind {
            if !first {
                s.push(',');
            }
            first = false;
            s.push_str(&format!("\"{}\":{}", k, v));
        }
        s.push_str("},\"extra\":{");
        first = true;
        for (k, v) in &self.extra {
            if !first {
                s.push(',');
            }
            first = false;
            s.push_str(&format!("\"{}\":{}", k, v));
        }
        s.push_str("},\"samples\":[");
        first = true;
        for v in &self.samples {
            if !first {
                s.push(',');
            }
            first = false;
            s.push_str(&json_str(v));
        }
        s.push_str("]}");
        s
    }
}

pub fn json_str(s: &str) -> String {
    let mut o = String::from("\"");
    for c in s.chars() {
        match c {
            '"' => o.push_str("\\\""),
            '\\' => o.push_str("\\\\"),
            '\n' => o.push_str("\\n"),
            c if (c as u32) < 0x20 => o.push_str(&format!("\\u{:04x}", c as u32)),
            c => o.push(c),
        }
    }
    o.push('"');
    o
}

/// A violation found by a monitor: what diverged, and the operation log of the episode.
#[allow(dead_code)]
pub struct Violation {
    pub what: String,
    pub ops: Vec<String>,
}
