// C14 monitor: WBTreeMap / WBTreeSet against BTreeMap / BTreeSet on a family of live clones,
// with structural introspection (hook H1: verif_shape) after every operation.
use crate::common::*;
use eqlog_runtime::wbtree::map::{Entry, WBTreeMap};
use eqlog_runtime::wbtree::set::WBTreeSet;
use std::collections::{BTreeMap, BTreeSet};

/// Values carry the identity of the map they were inserted into ("origin"), so that the order in
/// which a merge/filter callback receives its two operands is observable.
#[derive(Clone, Debug, PartialEq, Eq)]
pub struct Val {
    pub origin: u32,
    pub payload: u32,
}

pub struct Params {
    pub universe: u32,
    pub family: usize,
    pub ops_per_episode: usize,
    pub max_size: usize,
}

type RefMap = BTreeMap<u32, Val>;

fn height_bound(n: usize) -> f64 {
    // every child's weight is at most 3/4 of its parent's weight (DELTA = 3), hence
    // height <= log_{4/3}(n + 1) = 2.4094 * log2(n + 1); +1 for rounding slack.
    2.4095 * ((n + 1) as f64).log2() + 1.0
}

fn check_map(
    i: usize,
    t: &WBTreeMap<Val>,
    s: &RefMap,
    stats: &mut Stats,
) -> Result<(), String> {
    stats.comparisons += 1;
    let got: Vec<(u32, Val)> = t.iter().map(|(k, v)| (k, v.clone())).collect();
    let want: Vec<(u32, Val)> = s.iter().map(|(k, v)| (*k, v.clone())).collect();
    if got != want {
        return Err(format!(
            "member m{}: iteration {:?} differs from reference {:?}",
            i, got, want
        ));
    }
    if t.len() != s.len() {
        return Err(format!(
            "member m{}: len()={} but reference has {} entries",
            i,
            t.len(),
            s.len()
        ));
    }
    if t.is_empty() != s.is_empty() {
        return Err(format!("member m{}: is_empty()={} wrong", i, t.is_empty()));
    }
    let (h, cnt, ok) = t.verif_shape();
    if !ok {
        return Err(format!(
            "member m{}: size/order/weight-balance invariant violated at some node (n={})",
            i,
            s.len()
        ));
    }
    if cnt != s.len() {
        return Err(format!(
            "member m{}: tree holds {} nodes but reference has {} entries",
            i,
            cnt,
            s.len()
        ));
    }
    let hb = height_bound(cnt);
    if (h as f64) > hb {
        return Err(format!(
            "member m{}: height {} exceeds logarithmic bound {:.2} for n={}",
            i, h, hb, cnt
        ));
    }
    stats.max_height = stats.max_height.max(h);
    stats.max_size = stats.max_size.max(cnt);
    if cnt >= 4 {
        let r = (1000.0 * h as f64 / hb) as u64;
        stats.max_height_ratio_milli = stats.max_height_ratio_milli.max(r);
    }
    Ok(())
}

fn pick_key(c: &mut dyn Chooser, s: &RefMap, u: u32) -> u32 {
    if c.exhaustive() {
        return c.choose(u as usize) as u32;
    }
    if !s.is_empty() && c.choose(2) == 0 {
        let k = c.choose(s.len());
        *s.keys().nth(k).unwrap()
    } else {
        c.choose(u as usize) as u32
    }
}

pub fn episode(
    c: &mut dyn Chooser,
    p: &Params,
    stats: &mut Stats,
    log: &mut Vec<String>,
) -> Result<(), String> {
    let u = p.universe;
    let mut fam: Vec<(WBTreeMap<Val>, RefMap)> = vec![(WBTreeMap::new(), RefMap::new())];
    let mut next_payload: u32 = 0;
    let kinds: &[&'static str] = if c.exhaustive() {
        &[
            "insert", "remove", "get_mut", "entry_or_insert", "entry_occupied_remove",
            "iter_mut", "clone", "union", "difference", "clear",
        ]
    } else {
        &[
            "insert", "insert", "insert", "remove", "remove", "get", "get_mut", "contains_key",
            "entry_or_insert", "entry_or_insert_with", "entry_occupied_get_mut",
            "entry_occupied_into_mut", "entry_occupied_remove", "entry_vacant_insert", "iter_mut",
            "clone", "union", "difference", "clear", "bulk_insert", "bulk_remove",
        ]
    };
    for _ in 0..p.ops_per_episode {
        let kind = kinds[c.choose(kinds.len())];
        let m = c.choose(fam.len());
        stats.kind(kind);
        match kind {
            "insert" => {
                let k = pick_key(c, &fam[m].1, u);
                next_payload += 1;
                let v = Val { origin: m as u32, payload: next_payload };
                log.push(format!("m{}.insert({}, {:?})", m, k, v));
                let r = fam[m].0.insert(k, v.clone());
                let e = fam[m].1.insert(k, v);
                if r != e {
                    return Err(format!("insert({}) returned {:?}, reference {:?}", k, r, e));
                }
            }
            "bulk_insert" => {
                // sequential or strided runs: adversarial shapes for rebalancing and join
                let start = c.choose(u as usize) as u32;
                let stride = 1 + c.choose(3) as u32;
                let cnt = 1 + c.choose(24);
                let down = c.choose(2) == 0;
                log.push(format!("m{}.bulk_insert(start={},stride={},cnt={},down={})", m, start, stride, cnt, down));
                for j in 0..cnt as u32 {
                    let k = if down { start.wrapping_sub(j * stride) % u } else { (start + j * stride) % u };
                    next_payload += 1;
                    let v = Val { origin: m as u32, payload: next_payload };
                    let r = fam[m].0.insert(k, v.clone());
                    let e = fam[m].1.insert(k, v);
                    if r != e {
                        return Err(format!("insert({}) returned {:?}, reference {:?}", k, r, e));
                    }
                }
            }
            "bulk_remove" => {
                let cnt = 1 + c.choose(24);
                log.push(format!("m{}.bulk_remove({})", m, cnt));
                for _ in 0..cnt {
                    let k = pick_key(c, &fam[m].1, u);
                    let r = fam[m].0.remove(&k);
                    let e = fam[m].1.remove(&k);
                    if r != e {
                        return Err(format!("remove({}) returned {:?}, reference {:?}", k, r, e));
                    }
                    let (_, _, ok) = fam[m].0.verif_shape();
                    if !ok {
                        return Err(format!("after remove({}): invariant violated", k));
                    }
                }
            }
            "remove" => {
                let k = pick_key(c, &fam[m].1, u);
                log.push(format!("m{}.remove({})", m, k));
                let r = fam[m].0.remove(&k);
                let e = fam[m].1.remove(&k);
                if r != e {
                    return Err(format!("remove({}) returned {:?}, reference {:?}", k, r, e));
                }
            }
            "get" | "contains_key" => {
                let k = pick_key(c, &fam[m].1, u);
                log.push(format!("m{}.{}({})", m, kind, k));
                let r = fam[m].0.get(&k).cloned();
                let e = fam[m].1.get(&k).cloned();
                if r != e || fam[m].0.contains_key(&k) != e.is_some() {
                    return Err(format!("get({}) returned {:?}, reference {:?}", k, r, e));
                }
            }
            "get_mut" => {
                let k = pick_key(c, &fam[m].1, u);
                next_payload += 1;
                log.push(format!("m{}.get_mut({}).payload = {}", m, k, next_payload));
                let r = fam[m].0.get_mut(&k).map(|v| {
                    let old = v.clone();
                    v.payload = next_payload;
                    old
                });
                let e = fam[m].1.get_mut(&k).map(|v| {
                    let old = v.clone();
                    v.payload = next_payload;
                    old
                });
                if r != e {
                    return Err(format!("get_mut({}) saw {:?}, reference {:?}", k, r, e));
                }
            }
            "entry_or_insert" | "entry_or_insert_with" => {
                let k = pick_key(c, &fam[m].1, u);
                next_payload += 1;
                let v = Val { origin: m as u32, payload: next_payload };
                log.push(format!("m{}.entry({}).{}({:?}) then write", m, k, &kind[6..], v));
                let mut called = false;
                let r = {
                    let slot = if kind == "entry_or_insert" {
                        fam[m].0.entry(k).or_insert(v.clone())
                    } else {
                        fam[m].0.entry(k).or_insert_with(|| {
                            called = true;
                            v.clone()
                        })
                    };
                    let seen = slot.clone();
                    slot.payload = slot.payload.wrapping_add(1000);
                    seen
                };
                let was_present = fam[m].1.contains_key(&k);
                let e = {
                    let slot = fam[m].1.entry(k).or_insert(v.clone());
                    let seen = slot.clone();
                    slot.payload = slot.payload.wrapping_add(1000);
                    seen
                };
                if r != e {
                    return Err(format!("entry({}).or_insert saw {:?}, reference {:?}", k, r, e));
                }
                if kind == "entry_or_insert_with" && called == was_present {
                    return Err(format!(
                        "entry({}).or_insert_with: default called={} although key present={}",
                        k, called, was_present
                    ));
                }
            }
            "entry_occupied_get_mut" | "entry_occupied_into_mut" | "entry_occupied_remove"
            | "entry_vacant_insert" => {
                let k = pick_key(c, &fam[m].1, u);
                next_payload += 1;
                let np = next_payload;
                log.push(format!("m{}.entry({}) -> {}", m, k, kind));
                let present = fam[m].1.contains_key(&k);
                let (tm, sm) = &mut fam[m];
                match tm.entry(k) {
                    Entry::Occupied(mut o) => {
                        if !present {
                            return Err(format!("entry({}) Occupied but reference has no such key", k));
                        }
                        match kind {
                            "entry_occupied_get_mut" => {
                                let seen = o.get_mut().clone();
                                o.get_mut().payload = np;
                                let e = sm.get_mut(&k).unwrap();
                                if seen != *e {
                                    return Err(format!("occupied.get_mut saw {:?}, reference {:?}", seen, e));
                                }
                                e.payload = np;
                            }
                            "entry_occupied_into_mut" => {
                                let r = o.into_mut();
                                let e = sm.get_mut(&k).unwrap();
                                if *r != *e {
                                    return Err(format!("occupied.into_mut saw {:?}, reference {:?}", r, e));
                                }
                                r.payload = np;
                                e.payload = np;
                            }
                            "entry_occupied_remove" => {
                                let r = o.remove();
                                let e = sm.remove(&k).unwrap();
                                if r != e {
                                    return Err(format!("occupied.remove returned {:?}, reference {:?}", r, e));
                                }
                            }
                            _ => {}
                        }
                    }
                    Entry::Vacant(v) => {
                        if present {
                            return Err(format!("entry({}) Vacant but reference has the key", k));
                        }
                        if kind == "entry_vacant_insert" {
                            let val = Val { origin: m as u32, payload: np };
                            let r = v.insert(val.clone());
                            if *r != val {
                                return Err("vacant.insert returned a different value".to_string());
                            }
                            r.payload = r.payload.wrapping_add(7);
                            sm.insert(k, Val { origin: m as u32, payload: np.wrapping_add(7) });
                        }
                    }
                }
            }
            "iter_mut" => {
                // selective modification through the raw-pointer iterator while clones are alive
                let modulus = if c.exhaustive() { 2 } else { 1 + c.choose(3) as u32 };
                let stop_after = if c.exhaustive() { usize::MAX } else if c.choose(3) == 0 { c.choose(4) } else { usize::MAX };
                log.push(format!("m{}.iter_mut() write where k%{}==0, stop after {}", m, modulus, stop_after));
                let mut seen = vec![];
                for (j, (k, v)) in fam[m].0.iter_mut().enumerate() {
                    if j >= stop_after {
                        break;
                    }
                    seen.push((k, v.clone()));
                    if k % modulus == 0 {
                        v.payload = v.payload.wrapping_add(100_000);
                    }
                }
                let mut want = vec![];
                for (j, (k, v)) in fam[m].1.iter_mut().enumerate() {
                    if j >= stop_after {
                        break;
                    }
                    want.push((*k, v.clone()));
                    if *k % modulus == 0 {
                        v.payload = v.payload.wrapping_add(100_000);
                    }
                }
                if seen != want {
                    return Err(format!("iter_mut yielded {:?}, reference {:?}", seen, want));
                }
            }
            "clone" => {
                let cl = (fam[m].0.clone(), fam[m].1.clone());
                let d = if fam.len() < p.family { fam.len() } else if c.exhaustive() { (m + 1) % fam.len() } else { c.choose(fam.len()) };
                log.push(format!("m{} = m{}.clone()", d, m));
                if d < fam.len() {
                    fam[d] = cl;
                } else {
                    fam.push(cl);
                }
            }
            "union" | "difference" => {
                let o = c.choose(fam.len());
                let d = if fam.len() < p.family { fam.len() } else if c.exhaustive() { (m + 1) % fam.len() } else { c.choose(fam.len()) };
                let mode = c.choose(if c.exhaustive() { 2 } else { 3 }) as u32;
                log.push(format!("m{} = m{}.{}(m{}, mode {})", d, m, kind, o, mode));
                let mut calls: Vec<(u32, Val, Val)> = vec![];
                let (t, s) = if kind == "union" {
                    let t = fam[m].0.union(&fam[o].0, |k, l, r| {
                        calls.push((*k, l.clone(), r.clone()));
                        // non-commutative merge
                        Val { origin: l.origin.wrapping_mul(16).wrapping_add(r.origin).wrapping_add(100), payload: l.payload.wrapping_mul(3).wrapping_add(r.payload) }
                    });
                    let mut s = fam[m].1.clone();
                    let mut want_calls = vec![];
                    for (k, r) in fam[o].1.iter() {
                        match s.get(k).cloned() {
                            Some(l) => {
                                want_calls.push((*k, l.clone(), r.clone()));
                                s.insert(*k, Val { origin: l.origin.wrapping_mul(16).wrapping_add(r.origin).wrapping_add(100), payload: l.payload.wrapping_mul(3).wrapping_add(r.payload) });
                            }
                            None => {
                                s.insert(*k, r.clone());
                            }
                        }
                    }
                    calls.sort_by_key(|x| x.0);
                    if calls != want_calls {
                        return Err(format!(
                            "union: merge callback invocations (key,left,right) {:?}, expected exactly once per common key with (left,right) = (self,other): {:?}",
                            calls, want_calls
                        ));
                    }
                    (t, s)
                } else {
                    let t = fam[m].0.difference(&fam[o].0, |k, l, r| {
                        calls.push((*k, l.clone(), r.clone()));
                        match mode {
                            0 => None,
                            1 => {
                                if k % 2 == 0 {
                                    Some(Val { origin: l.origin.wrapping_mul(16).wrapping_add(r.origin).wrapping_add(200), payload: l.payload.wrapping_sub(r.payload) })
                                } else {
                                    None
                                }
                            }
                            _ => Some(l),
                        }
                    });
                    let mut s = RefMap::new();
                    let mut want_calls = vec![];
                    for (k, l) in fam[m].1.iter() {
                        match fam[o].1.get(k) {
                            None => {
                                s.insert(*k, l.clone());
                            }
                            Some(r) => {
                                want_calls.push((*k, l.clone(), r.clone()));
                                let keep = match mode {
                                    0 => None,
                                    1 => {
                                        if k % 2 == 0 {
                                            Some(Val { origin: l.origin.wrapping_mul(16).wrapping_add(r.origin).wrapping_add(200), payload: l.payload.wrapping_sub(r.payload) })
                                        } else {
                                            None
                                        }
                                    }
                                    _ => Some(l.clone()),
                                };
                                if let Some(v) = keep {
                                    s.insert(*k, v);
                                }
                            }
                        }
                    }
                    calls.sort_by_key(|x| x.0);
                    if calls != want_calls {
                        return Err(format!(
                            "difference: filter callback invocations (key,left,right) {:?}, expected exactly once per common key with (left,right) = (self,other): {:?}",
                            calls, want_calls
                        ));
                    }
                    (t, s)
                };
                stats.bump("callback_invocations", calls.len() as u64);
                if d < fam.len() {
                    fam[d] = (t, s);
                } else {
                    fam.push((t, s));
                }
            }
            "clear" => {
                log.push(format!("m{}.clear()", m));
                fam[m].0.clear();
                fam[m].1.clear();
            }
            _ => unreachable!(),
        }
        let mut h: u64 = 0xcbf29ce484222325;
        for i in 0..fam.len() {
            let (t, s) = &fam[i];
            check_map(i, t, s, stats)?;
            fnv(&mut h, 0xffff_ffff);
            for (k, v) in s {
                fnv(&mut h, *k as u64);
                fnv(&mut h, v.origin as u64);
            }
            let (hh, _, _) = t.verif_shape();
            fnv(&mut h, hh as u64);
        }
        stats.state(h);
        for (t, s) in fam.iter_mut() {
            if s.len() > p.max_size {
                // shrink by removals (exercises remove-side rebalancing on big trees)
                let keys: Vec<u32> = s.keys().cloned().collect();
                for (j, k) in keys.iter().enumerate() {
                    if j % 4 != 0 {
                        let r = t.remove(k);
                        let e = s.remove(k);
                        if r != e {
                            return Err(format!("remove({}) returned {:?}, reference {:?}", k, r, e));
                        }
                    }
                }
            }
        }
    }
    Ok(())
}

/// WBTreeSet against BTreeSet (thin wrapper over the map, same family discipline).
pub fn set_episode(
    c: &mut dyn Chooser,
    p: &Params,
    stats: &mut Stats,
    log: &mut Vec<String>,
) -> Result<(), String> {
    let u = p.universe as usize;
    let mut fam: Vec<(WBTreeSet, BTreeSet<u32>)> = vec![(WBTreeSet::new(), BTreeSet::new())];
    let kinds = ["insert", "insert", "remove", "contains", "clone", "union", "difference", "clear"];
    for _ in 0..p.ops_per_episode {
        let kind = kinds[c.choose(kinds.len())];
        let m = c.choose(fam.len());
        stats.kind(match kind {
            "insert" => "set_insert",
            "remove" => "set_remove",
            "contains" => "set_contains",
            "clone" => "set_clone",
            "union" => "set_union",
            "difference" => "set_difference",
            _ => "set_clear",
        });
        match kind {
            "insert" => {
                let k = c.choose(u) as u32;
                log.push(format!("s{}.insert({})", m, k));
                let (r, e) = (fam[m].0.insert(k), fam[m].1.insert(k));
                if r != e {
                    return Err(format!("set insert({}) returned {}, reference {}", k, r, e));
                }
            }
            "remove" => {
                let k = c.choose(u) as u32;
                log.push(format!("s{}.remove({})", m, k));
                let (r, e) = (fam[m].0.remove(&k), fam[m].1.remove(&k));
                if r != e {
                    return Err(format!("set remove({}) returned {}, reference {}", k, r, e));
                }
            }
            "contains" => {
                let k = c.choose(u) as u32;
                log.push(format!("s{}.contains({})", m, k));
                if fam[m].0.contains(&k) != fam[m].1.contains(&k) {
                    return Err(format!("set contains({}) wrong", k));
                }
            }
            "clone" | "union" | "difference" => {
                let o = c.choose(fam.len());
                let d = if fam.len() < p.family { fam.len() } else { c.choose(fam.len()) };
                log.push(format!("s{} = s{}.{}(s{})", d, m, kind, o));
                let x = match kind {
                    "clone" => (fam[m].0.clone(), fam[m].1.clone()),
                    "union" => (
                        fam[m].0.union(&fam[o].0),
                        fam[m].1.union(&fam[o].1).cloned().collect(),
                    ),
                    _ => (
                        fam[m].0.difference(&fam[o].0),
                        fam[m].1.difference(&fam[o].1).cloned().collect(),
                    ),
                };
                if d < fam.len() {
                    fam[d] = x;
                } else {
                    fam.push(x);
                }
            }
            _ => {
                log.push(format!("s{}.clear()", m));
                fam[m].0.clear();
                fam[m].1.clear();
            }
        }
        for (i, (t, s)) in fam.iter().enumerate() {
            stats.comparisons += 1;
            let got: Vec<u32> = t.iter().collect();
            let want: Vec<u32> = s.iter().cloned().collect();
            if got != want || t.len() != s.len() || t.is_empty() != s.is_empty() {
                return Err(format!(
                    "set member s{}: iteration {:?} len {} vs reference {:?}",
                    i,
                    got,
                    t.len(),
                    want
                ));
            }
        }
    }
    Ok(())
}
