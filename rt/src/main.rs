// vf-rt: online differential monitors for eqlog-runtime. One JSON line on stdout.
// Exit 0: no divergence observed; exit 1: divergence (JSON holds the witness); exit 2: usage.
mod common;
mod pt;
mod topo;
mod wb;

use common::*;
use std::collections::BTreeMap;

fn arg<T: std::str::FromStr>(args: &BTreeMap<String, String>, k: &str, d: T) -> T {
    match args.get(k) {
        Some(v) => v.parse().ok().unwrap_or_else(|| {
            eprintln!("bad value for --{}", k);
            std::process::exit(2)
        }),
        None => d,
    }
}

fn fail(mode: &str, seed: u64, episode: u64, what: &str, log: &[String], extra: &str) -> ! {
    let ops: Vec<String> = log.iter().map(|s| json_str(s)).collect();
    println!(
        "{{\"mode\":{},\"ok\":false,\"seed\":{},\"episode\":{},\"violation\":{},\"ops\":[{}]{}}}",
        json_str(mode),
        seed,
        episode,
        json_str(what),
        ops.join(","),
        extra
    );
    std::process::exit(1)
}

fn main() {
    let argv: Vec<String> = std::env::args().collect();
    if argv.len() < 2 {
        eprintln!("usage: vf-rt <pt|pt-exh|wb|wb-exh|set|topo|topo-exh> [--key value]...");
        std::process::exit(2);
    }
    let mode = argv[1].clone();
    let mut args = BTreeMap::new();
    let mut i = 2;
    while i + 1 < argv.len() {
        args.insert(argv[i].trim_start_matches("--").to_string(), argv[i + 1].clone());
        i += 2;
    }
    let seed: u64 = arg(&args, "seed", 1);
    let episodes: u64 = arg(&args, "episodes", 100);
    let only: i64 = arg(&args, "episode", -1);
    let ops: usize = arg(&args, "ops", 60);
    let universe: u32 = arg(&args, "universe", 4);
    let family: usize = arg(&args, "family", 4);
    let max_size: usize = arg(&args, "max-size", 96);
    let mut stats = Stats::default();
    let ep_range: Vec<u64> = if only >= 0 { vec![only as u64] } else { (0..episodes).collect() };

    match mode.as_str() {
        "pt" => {
            let amin: usize = arg(&args, "arity-min", 0);
            let amax: usize = arg(&args, "arity-max", 9);
            for ep in ep_range {
                let arity = amin + (ep as usize) % (amax - amin + 1);
                let mut rng = Rng::new(seed.wrapping_mul(1_000_003).wrapping_add(ep));
                // universe varies per episode between 2 and `universe`
                let u = 2 + (rng.next() % (universe as u64 - 1)) as u32;
                let p = pt::Params { universe: u, family, ops_per_episode: ops, max_size };
                let mut log = vec![format!("arity {} universe {}", arity, u)];
                stats.episodes += 1;
                if let Err(e) = pt::episode_arity(arity, &mut rng, &p, &mut stats, &mut log) {
                    fail(&mode, seed, ep, &e, &log, &format!(",\"arity\":{}", arity));
                }
                if stats.samples.len() < 2 && arity >= 2 {
                    stats.samples.push(log.iter().take(14).cloned().collect::<Vec<_>>().join("; "));
                }
            }
        }
        "pt-exh" => {
            let arity: usize = arg(&args, "arity", 2);
            let depth: usize = arg(&args, "depth", 3);
            let p = pt::Params { universe, family, ops_per_episode: depth, max_size: 1 << 20 };
            let mut en = Enumerator::new();
            loop {
                en.start_episode();
                let mut log = vec![format!("arity {} universe {} (exhaustive depth {})", arity, universe, depth)];
                stats.episodes += 1;
                if let Err(e) = pt::episode_arity(arity, &mut en, &p, &mut stats, &mut log) {
                    fail(&mode, seed, stats.episodes, &e, &log, &format!(",\"arity\":{}", arity));
                }
                if stats.samples.is_empty() && stats.episodes == 1000 {
                    stats.samples.push(log.join("; "));
                }
                if !en.advance() {
                    break;
                }
            }
            stats.bump("exhaustive_runs_completed", 1);
        }
        "wb" | "set" => {
            for ep in ep_range {
                let mut rng = Rng::new(seed.wrapping_mul(1_000_003).wrapping_add(ep));
                // key universe varies per episode: 4 .. universe, log-uniform
                let maxbits = 32 - (universe.max(4)).leading_zeros();
                let bits = 2 + (rng.next() % (maxbits as u64 - 1)) as u32;
                let u = (1u32 << bits).min(universe.max(4));
                let p = wb::Params { universe: u, family, ops_per_episode: ops, max_size };
                let mut log = vec![format!("universe {}", u)];
                stats.episodes += 1;
                let r = if mode == "wb" {
                    wb::episode(&mut rng, &p, &mut stats, &mut log)
                } else {
                    wb::set_episode(&mut rng, &p, &mut stats, &mut log)
                };
                if let Err(e) = r {
                    fail(&mode, seed, ep, &e, &log, "");
                }
                if stats.samples.len() < 2 {
                    stats.samples.push(log.iter().take(14).cloned().collect::<Vec<_>>().join("; "));
                }
            }
        }
        "wb-exh" => {
            let depth: usize = arg(&args, "depth", 4);
            let p = wb::Params { universe, family, ops_per_episode: depth, max_size: 1 << 20 };
            let mut en = Enumerator::new();
            loop {
                en.start_episode();
                let mut log = vec![format!("universe {} (exhaustive depth {})", universe, depth)];
                stats.episodes += 1;
                if let Err(e) = wb::episode(&mut en, &p, &mut stats, &mut log) {
                    fail(&mode, seed, stats.episodes, &e, &log, "");
                }
                if stats.samples.is_empty() && stats.episodes == 1000 {
                    stats.samples.push(log.join("; "));
                }
                if !en.advance() {
                    break;
                }
            }
            stats.bump("exhaustive_runs_completed", 1);
        }
        "topo" => {
            let max_obj: usize = arg(&args, "max-obj", 8);
            let max_mor: usize = arg(&args, "max-mor", 14);
            let nsplits: usize = arg(&args, "splits", 8);
            for ep in ep_range {
                let mut rng = Rng::new(seed.wrapping_mul(1_000_003).wrapping_add(ep));
                let big = ep % 7 == 0;
                let g = topo::random_graph(
                    &mut rng,
                    if big { max_obj * 3 } else { max_obj },
                    if big { max_mor * 5 } else { max_mor },
                    ep % 2 == 0,
                );
                stats.episodes += 1;
                stats.kind("graph");
                if let Err(e) = topo::check_graph(&g, &mut rng, nsplits, &mut stats) {
                    fail(&mode, seed, ep, &e, &[format!("{:?}", g)], "");
                }
                if stats.samples.len() < 3 && g.mors.len() >= 3 {
                    stats.samples.push(format!("{:?}", g));
                }
            }
        }
        "topo-det" => {
            let max_obj: usize = arg(&args, "max-obj", 8);
            let max_mor: usize = arg(&args, "max-mor", 14);
            let nsplits: usize = arg(&args, "splits", 4);
            for ep in ep_range {
                let mut rng = Rng::new(seed.wrapping_mul(1_000_003).wrapping_add(ep));
                let g = topo::random_graph(&mut rng, max_obj, max_mor, true);
                stats.episodes += 1;
                stats.kind("graph-repeat");
                if let Err(e) = topo::check_repeat(&g, &mut rng, nsplits, &mut stats) {
                    fail(&mode, seed, ep, &e, &[format!("{:?}", g)], "");
                }
            }
        }
        "topo-exh" => {
            let max_obj: usize = arg(&args, "max-obj", 3);
            let max_mor: usize = arg(&args, "max-mor", 4);
            let nsplits: usize = arg(&args, "splits", 6);
            let mut rng = Rng::new(seed);
            for nobj in 0..=max_obj {
                for nmor in 0..=max_mor {
                    let mut en = Enumerator::new();
                    loop {
                        en.start_episode();
                        let g = topo::enumerated_graph(&mut en, nobj, nmor);
                        stats.episodes += 1;
                        stats.kind("graph");
                        if let Err(e) = topo::check_graph(&g, &mut rng, nsplits, &mut stats) {
                            fail(&mode, seed, stats.episodes, &e, &[format!("{:?}", g)], "");
                        }
                        if stats.samples.len() < 2 && nobj == 3 && nmor == 3 && stats.episodes % 97 == 0 {
                            stats.samples.push(format!("{:?}", g));
                        }
                        if !en.advance() {
                            break;
                        }
                    }
                }
            }
            stats.bump("exhaustive_runs_completed", 1);
        }
        _ => {
            eprintln!("unknown mode {}", mode);
            std::process::exit(2);
        }
    }
    println!("{{\"mode\":{},\"ok\":true,\"seed\":{},\"stats\":{}}}", json_str(&mode), seed, stats.to_json());
}
